"""C34 — explicit runpp arguments take precedence over stored user options.

Correspondence: runpp(net, **explicit) with net.user_pf_options = stored on tiny nets, observed at
net._options right after _init_runpp_options (the numerical pipeline `_powerflow` is replaced by a recorder in
this process only) and at the return value / the exception of _passed_runpp_parameters, versus C34.Model.run_options.
Enumeration: for every runpp option key, all (stored, explicit) value pairs incl. "absent" (exhaustive singles),
composite values (numpy arrays of size 0/1/2, pandas Series, lists, tuples, dicts) for the copied named arguments and the
opaque **kwargs keys, plus random multi-key combinations on several net variants (ZIP loads, HV lines, two slacks,
existing results).
The run_control branch: runpp(run_control=True, ...) with step controllers on one or two levels, simulated diverging inner
power flows, continue_on_divergence / check_each_level / max_iter; observed are the keyword arguments of every inner run
(wrapper around run_control.runpp), net._options of every inner power flow and the outcome, versus
C34.ModelCtl.run_control_case.
Oracle (independent of the model): (O1) net._options equals the options of the same call with the explicitly
passed keys removed from the stored options; (O2) plainly copied explicit options show up with the passed value;
(O3) stored options of keys that were not passed are applied; the same on real (unstubbed) runpp calls; (O4) every inner
power flow of the run_control branch is configured like the plain call with the same power flow arguments."""
import copy, json, math
from fractions import Fraction
import numpy as np
import pandas as pd
import pandapower as pp
import pandapower.run as prun
import pandapower.auxiliary as paux
from vf import coqrun as cq

RULE = ("exhaustive (stored, explicit) value pairs incl. absent for each of 31 runpp option keys on a 2-bus net, plus random "
        "multi-key combinations (1-4 stored, 1-4 explicit keys, 60% forced overlap) on 4 net variants with/without previous "
        "results; composite values (arrays of size 0/1/2, Series, list, tuple, dict) for 7 copied named arguments and 5 opaque "
        "**kwargs keys against absent/scalar/composite stored values; run_control branch: 1-2 controller levels with 0-3 control "
        "steps, diverging inner runs, continue_on_divergence/check_each_level/max_iter, 25% outside the guard Gctl; "
        "non-trivial = stored and explicit are both non-empty and share at least one key")
ASSUMPTIONS = ["net._options is observed directly after _init_runpp_options (numerical pipeline replaced by a recorder in the "
               "harness process); a sample of real runpp calls checks that the pipeline does not rewrite the compared keys",
               "facts about net/installation (numba, lightsim2grid, ZIP loads, HV lines, slack count, mean vm_pu) are computed by "
               "the harness and passed to the model as inputs",
               "python == on {bool,int,float,str,None} as modelled by C34.Model.val_eqb; bool(value != default) for list/tuple/dict/"
               "numpy array/pandas Series values as modelled by C34.Model.ne_truth (numpy >= 2.2: empty array raises)",
               "composite values are used only for options that the option code copies without looking at them",
               "run_control branch: ctrl_variables and run are not passed by the caller; controllers do not change the facts read "
               "by the option code; the controllers' convergence and the inner power flows' convergence are inputs of the model"]
TRUSTED = ["monkeypatch of pandapower.run._powerflow / _passed_runpp_parameters / pandapower.control.run_control.runpp (recorders) "
           "in the harness process"]
KIND = "C34-explicit-default-ignored"

NAMED_DEFAULTS = {"algorithm": "nr", "calculate_voltage_angles": True, "init": "auto", "max_iteration": "auto",
                  "tolerance_mva": 1e-8, "trafo_model": "t", "trafo_loading": "current", "enforce_q_lims": False,
                  "check_connectivity": True, "voltage_depend_loads": True, "consider_line_temperature": False,
                  "run_control": False, "distributed_slack": False, "tdpf": False, "tdpf_delay_s": None}
PLAIN = ["tolerance_mva", "trafo_model", "trafo_loading", "enforce_q_lims", "check_connectivity",
         "consider_line_temperature", "algorithm", "distributed_slack", "tdpf", "tdpf_delay_s", "switch_rx_ratio",
         "trafo3w_losses", "v_debug", "neglect_open_switch_branches", "recycle", "only_v_results", "use_umfpack",
         "permc_spec", "tdpf_update_r_theta"]
GRID = {
    "algorithm": ["nr", "bfsw", "gs", "iwamoto_nr", "fdbx", "foo"],
    "calculate_voltage_angles": [True, False, "auto", 1],
    "init": ["auto", "flat", "dc", "results"],
    "max_iteration": ["auto", 10, 25],
    # float option: besides clearly different values, values very close to the default on both sides (1 ulp, 1e-7 relative,
    # factor 1.5) and much smaller ones - "passed" must not depend on how far the value is from the default
    "tolerance_mva": [1e-8, 1e-3, 1e-6, 1e-10, 1e-9, 5e-9, 9.999999e-9, 1.0000001e-8, 1.5e-8,
                      float(np.nextafter(1e-8, 1.0)), float(np.nextafter(1e-8, 0.0)), 1e-14],
    "trafo_model": ["t", "pi"],
    "trafo_loading": ["current", "power"],
    "enforce_q_lims": [False, True, 0],
    "check_connectivity": [True, False],
    "voltage_depend_loads": [True, False],
    "consider_line_temperature": [False, True],
    "run_control": [False, True],
    "distributed_slack": [False, True],
    "tdpf": [False, True],
    "tdpf_delay_s": [None, 60],
    # **kwargs keys
    "numba": [True, False],
    "lightsim2grid": ["auto", True, False],
    "switch_rx_ratio": [2, 1],
    "trafo3w_losses": ["hv", "star"],
    "v_debug": [False, True],
    "neglect_open_switch_branches": [False, True],
    "only_v_results": [False, True],
    "use_umfpack": [True, False],
    "permc_spec": [None, "NATURAL"],
    "init_vm_pu": [None, "auto", "flat", 1.0],
    "init_va_degree": [None, "dc", "flat"],
    "delta_q": [0, 1e-10, 1e-12, 5e-9],
    "tdpf_update_r_theta": [True, False],
    "recycle": [None, False],
    "foo_option": [3, 4],
    "mode": ["pf", "opf"],          # not a runpp argument, but accepted by set_user_pf_options
}
# values with which an unstubbed runpp on the variants still terminates quickly
REAL_GRID = {
    "algorithm": ["nr", "iwamoto_nr", "bfsw"],
    "calculate_voltage_angles": [True, False],
    "init": ["auto", "flat", "dc"],
    "max_iteration": ["auto", 10, 25],
    "tolerance_mva": [1e-8, 1e-3, 1e-6, 5e-9, 1.5e-8],
    "trafo_model": ["t", "pi"],
    "trafo_loading": ["current", "power"],
    "enforce_q_lims": [False, True],
    "check_connectivity": [True, False],
    "voltage_depend_loads": [True, False],
    "consider_line_temperature": [False],
    "numba": [False],
    "switch_rx_ratio": [2, 1],
    "trafo3w_losses": ["hv", "star"],
}


# ------------------------------------------------------------------ nets
def make_net(variant):
    net = pp.create_empty_network()
    if variant == "hv2slack":
        b1 = pp.create_bus(net, 110.); b2 = pp.create_bus(net, 110.); b3 = pp.create_bus(net, 110.)
        pp.create_ext_grid(net, b1, vm_pu=1.0); pp.create_ext_grid(net, b3, vm_pu=1.0)
        pp.create_line(net, b1, b2, 2.0, "149-AL1/24-ST1A 110.0"); pp.create_line(net, b2, b3, 2.0, "149-AL1/24-ST1A 110.0")
        pp.create_load(net, b2, 5.0, 1.0)
        return net
    b1 = pp.create_bus(net, 20.); b2 = pp.create_bus(net, 20.)
    pp.create_ext_grid(net, b1, vm_pu=1.03125 if variant == "gen" else 1.0)
    pp.create_line(net, b1, b2, 1.0, "NAYY 4x150 SE")
    if variant == "zip":
        pp.create_load(net, b2, 0.25, 0.0625, const_z_p_percent=50., const_i_p_percent=25.,
                       const_z_q_percent=50., const_i_q_percent=25.)
    else:
        pp.create_load(net, b2, 0.25, 0.0625)
    if variant == "gen":
        b3 = pp.create_bus(net, 20.)
        pp.create_line(net, b2, b3, 1.0, "NAYY 4x150 SE")
        pp.create_gen(net, b3, p_mw=0.125, vm_pu=1.0)
    return net


VARIANTS = ["plain", "zip", "gen", "hv2slack"]


def facts_of(net):
    """the facts read by _init_runpp_options, computed from the tables (mirrors auxiliary.py:1729-1786, 1322)"""
    zipl = bool(np.any(net.load[["const_z_p_percent", "const_i_p_percent", "const_z_q_percent", "const_i_q_percent"]].values))
    hv = False
    is_hv = np.nonzero(net.bus.vn_kv.values > 70)[0]
    if any(is_hv) > 0:
        line_buses = set(net.line.from_bus.values) & set(net.line.to_bus.values)
        hv = any(a in line_buses for a in net.bus.index[is_hv])
    eg = net.ext_grid[net.ext_grid.in_service]
    gn = net.gen[net.gen.in_service]
    cnt = len(eg) + len(gn)
    mean = (eg.vm_pu.values.sum() + gn.vm_pu.values.sum()) / cnt
    nslack = len(eg) + len(net.gen.query("slack & in_service"))
    return {"numba": bool(paux.NUMBA_INSTALLED), "ls2g": bool(paux.lightsim2grid_available), "zip": zipl, "hv": bool(hv),
            "facts": False, "res_empty": len(net.res_bus) == 0, "vm": float(mean), "multi": nslack > 1,
            "blocked": False, "tdpf_ok": False}


# ------------------------------------------------------------------ literals
class Interner:
    """string literals are emitted once (prelude definitions) and referred to by name; the model output refers to the
    same table by index (C34.Model.intern)"""

    def __init__(self):
        self.tbl = []
        self.idx = {}

    def name(self, s):
        if s not in self.idx:
            self.idx[s] = len(self.tbl)
            self.tbl.append(s)
        return "s%d_" % self.idx[s]

    def prelude(self):
        lines = ["Definition s%d_ : string := %s." % (i, cq.s(t)) for i, t in enumerate(self.tbl)]
        lines.append("Definition tbl_ : list string := %s." % cq.lst(["s%d_" % i for i in range(len(self.tbl))]))
        return "\n".join(lines)

    def decode(self, x):
        if isinstance(x, list):
            if len(x) == 2 and x[0] is None and isinstance(x[1], int) and not isinstance(x[1], bool):
                return self.tbl[x[1]]
            return [self.decode(i) for i in x]
        return x


INT = Interner()


def val_lit(v):
    if v is None:
        return "VNone"
    if isinstance(v, (bool, np.bool_)):
        return "(VB %s)" % cq.b(bool(v))
    if isinstance(v, (int, np.integer)):
        return "(VZ %s)" % cq.z(int(v))
    if isinstance(v, (float, np.floating)):
        return "(VQ %s)" % cq.q(float(v))
    if isinstance(v, str):
        return "(VS %s)" % INT.name(v)
    if isinstance(v, np.ndarray):
        return "(VA %s)" % cq.lst([val_lit(x) for x in v.ravel().tolist()])
    if isinstance(v, pd.Series):
        return "(VSer %s)" % cq.lst([val_lit(x) for x in v.tolist()])
    if isinstance(v, (list, tuple)):
        return "(VL %s)" % cq.lst([val_lit(x) for x in v])
    if isinstance(v, dict):
        return "(VD %s)" % dict_lit(v)
    if callable(v):
        return "(VO 0)"
    raise ValueError("no literal for %r" % (v,))


def dict_lit(d):
    return cq.lst(["(%s, %s)" % (INT.name(k), val_lit(v)) for k, v in d.items()])


def facts_lit(f):
    return ("{| f_numba_installed := %s; f_ls2g_available := %s; f_zip_loads := %s; f_hv_line := %s; f_with_facts := %s; "
            "f_res_bus_empty := %s; f_init_vm_auto := %s; f_multi_slack := %s; f_ls2g_blocked := %s; f_tdpf_ok := %s |}" % (
                cq.b(f["numba"]), cq.b(f["ls2g"]), cq.b(f["zip"]), cq.b(f["hv"]), cq.b(f["facts"]), cq.b(f["res_empty"]),
                val_lit(f["vm"]), cq.b(f["multi"]), cq.b(f["blocked"]), cq.b(f["tdpf_ok"])))


def canon_val(v):
    """tagged canonical form shared by impl observations and parsed model output"""
    if v is None:
        return None
    if isinstance(v, cq.Err):
        return ["err", v.s]
    if isinstance(v, (bool, np.bool_)):
        return ["b", bool(v)]
    if isinstance(v, (int, np.integer)):
        return ["z", int(v)]
    if isinstance(v, Fraction):
        return ["q", "%d/%d" % (v.numerator, v.denominator)]
    if isinstance(v, (float, np.floating)):
        fr = Fraction(float(v))
        return ["q", "%d/%d" % (fr.numerator, fr.denominator)]
    if isinstance(v, str):
        return ["s", v]
    # composite values: impl objects and the model's tagged lists ["array", [...]] map to the same form
    if isinstance(v, np.ndarray):
        return ["array", [canon_val(x) for x in v.ravel().tolist()]]
    if isinstance(v, pd.Series):
        return ["series", [canon_val(x) for x in v.tolist()]]
    if isinstance(v, tuple):
        return ["list", [canon_val(x) for x in v]]
    if isinstance(v, dict):
        return ["dict", sorted([[k, canon_val(x)] for k, x in v.items()])]
    if isinstance(v, list):
        if len(v) == 2 and v[0] in ("array", "series", "list") and isinstance(v[1], list):
            return [v[0], [canon_val(x) for x in v[1]]]
        if len(v) == 2 and v[0] == "dict" and isinstance(v[1], list):
            return ["dict", sorted([[kv[0], canon_val(kv[1])] for kv in v[1]])]
        if len(v) == 2 and v[0] == "object":
            return ["object"]
        return ["list", [canon_val(x) for x in v]]
    if callable(v):
        return ["object"]
    return ["other", repr(v)]


def canon_dict(d):
    return sorted([[k, canon_val(v)] for k, v in d.items()])


def canon_model_dict(m):
    if isinstance(m, cq.Err):
        return ["err", m.s]
    if m is None:
        return None
    return sorted([[kv[0], canon_val(kv[1])] for kv in m])


# ------------------------------------------------------------------ running the impl
class Recorder:
    """replaces pandapower.run._powerflow (records net._options) and wraps _passed_runpp_parameters"""

    def __init__(self):
        self.opts = None
        self.passed = "unset"
        self._pf = prun._powerflow
        self._pp = prun._passed_runpp_parameters

    def __enter__(self):
        rec = self

        def pf(net, **kw):
            rec.opts = copy.deepcopy(dict(net._options))

        def passed(loc):
            try:
                r = rec._pp(loc)
            except Exception as e:
                rec.passed = "raised " + type(e).__name__
                raise
            rec.passed = copy.deepcopy(r)
            return r

        prun._powerflow = pf
        prun._passed_runpp_parameters = passed
        return self

    def __exit__(self, *a):
        prun._powerflow = self._pf
        prun._passed_runpp_parameters = self._pp


def impl_options(base_net, stored, explicit, stub=True):
    """returns (canonical options | ['err', class], canonical passed | None)"""
    # the recorder path does not touch the tables: reuse the object; the real path works on a copy
    net = base_net if stub else copy.deepcopy(base_net)
    net.user_pf_options = {}
    if stored:
        pp.set_user_pf_options(net, **stored)
    if stub:
        with Recorder() as rec:
            try:
                pp.runpp(net, **explicit)
                out = canon_dict(rec.opts)
            except Exception as e:
                out = ["err", type(e).__name__]
            passed = None if (rec.passed is None or isinstance(rec.passed, str)) else canon_dict(rec.passed)
            if rec.passed == "raised ValueError":
                passed = ["err", "ValueError"]
        return out, passed
    import io, contextlib
    try:
        with contextlib.redirect_stdout(io.StringIO()):
            pp.runpp(net, **explicit)
        return canon_dict(dict(net._options)), None
    except Exception as e:
        return ["err", type(e).__name__], None


def dec(x):
    """JSON form of a case value -> python value ({"__array__": [...]}, {"__series__": [...]}, {"__tuple__": [...]},
    {"__dict__": {...}}; everything else as it is)"""
    if isinstance(x, dict):
        if set(x) == {"__array__"}:
            return np.array(x["__array__"])
        if set(x) == {"__series__"}:
            return pd.Series(x["__series__"])
        if set(x) == {"__tuple__"}:
            return tuple(x["__tuple__"])
        if set(x) == {"__dict__"}:
            return {k: dec(v) for k, v in x["__dict__"].items()}
    return x


def dec_dict(d):
    return {k: dec(v) for k, v in d.items()}


def py_eq(a, b):
    try:
        return bool(a == b)
    except Exception:
        return False


def ne_true(v, d):
    """bool(v != d) as the code evaluates it; False when it raises (C34.Model.ne_true)"""
    try:
        return bool(v != d)
    except Exception:
        return False


def ne_raises(v, d):
    try:
        bool(v != d)
        return False
    except Exception:
        return True


def compare_raises(explicit):
    """some named argument cannot be compared to its default (array of size != 1, Series): outside the property's domain"""
    return any(ne_raises(v, NAMED_DEFAULTS[k]) for k, v in explicit.items() if k in NAMED_DEFAULTS)


def defaulted_keys(stored, explicit):
    """explicit named keys whose value == the signature default and which collide with a stored option (not G34_key)"""
    return [k for k, v in explicit.items() if k in NAMED_DEFAULTS and not ne_true(v, NAMED_DEFAULTS[k])
            and not ne_raises(v, NAMED_DEFAULTS[k]) and k in stored]


def g34(explicit):
    return all(ne_true(v, NAMED_DEFAULTS[k]) for k, v in explicit.items() if k in NAMED_DEFAULTS)


def lookup(opts, k):
    for kk, v in opts:
        if kk == k:
            return v
    return "absent"


def oracle(ctx, base_net, case, stub=True):
    """spec on the impl, independent of the model.  returns the impl observation of the case."""
    stored, explicit = dec_dict(case["stored"]), dec_dict(case["explicit"])
    o, passed = impl_options(base_net, stored, explicit, stub)
    if compare_raises(explicit):
        # an argument that cannot be compared to its default: correspondence only (the model says ValueError iff options
        # are stored), the property speaks about arguments with a comparable value
        ctx.count("compare_raises")
        return o, passed
    reduced = {k: v for k, v in stored.items() if k not in explicit}
    o_ref = o if set(reduced) == set(stored) else impl_options(base_net, reduced, explicit, stub)[0]
    D = defaulted_keys(stored, explicit)
    tag = "" if stub else " (real runpp)"
    if o != o_ref:
        # exactly the recorded defect?  after removing only the stored entries that collide with an explicit value equal to
        # the default, no difference may remain
        kind = "spec"
        if D:
            o_guard, _ = impl_options(base_net, {k: v for k, v in stored.items() if k not in D}, explicit, stub)
            if o_guard == o_ref:
                kind = KIND
        diff = _diff(o, o_ref)
        ctx.violation(kind, "stored option(s) influence net._options although the key was passed explicitly%s: %s" % (tag, diff), case)
    if o[0:1] != ["err"]:
        for k, v in explicit.items():
            if k in PLAIN and lookup(o, k) != canon_val(v):
                known = k in D and lookup(o, k) == canon_val(stored[k])
                ctx.violation(KIND if known else "spec",
                              "explicit %s=%r does not reach net._options (found %r, stored %r)%s" % (k, v, lookup(o, k), stored.get(k, "absent"), tag), case)
        for k, v in reduced.items():
            if lookup(o, k) != canon_val(v):
                ctx.violation("spec", "stored %s=%r is not applied although the argument was not passed (found %r)%s" % (k, v, lookup(o, k), tag), case)
    return o, passed


def _diff(a, b):
    if a[0:1] == ["err"] or b[0:1] == ["err"]:
        return "%s vs %s" % (a if a[0:1] == ["err"] else "ok", b if b[0:1] == ["err"] else "ok")
    da, db = dict((k, json.dumps(v)) for k, v in a), dict((k, json.dumps(v)) for k, v in b)
    return "; ".join("%s: %s vs %s" % (k, da.get(k), db.get(k)) for k in sorted(set(da) | set(db)) if da.get(k) != db.get(k))[:300]


# ------------------------------------------------------------------ case generation
def single_cases():
    out = []
    for k, vals in GRID.items():
        for sv in ["absent"] + vals:
            for ev in ["absent"] + vals:
                if k == "mode" and ev != "absent":
                    continue   # runpp(mode=...) is not an argument of the pipeline; stored only
                stored = {} if sv == "absent" else {k: sv}
                explicit = {} if ev == "absent" else {k: ev}
                out.append({"net": "plain", "prerun": False, "stored": stored, "explicit": explicit})
    return out


# composite values: for the named arguments that the option code only copies, and for **kwargs keys it treats as opaque
COMPOSITE_NAMED = ["tolerance_mva", "trafo_model", "trafo_loading", "enforce_q_lims", "check_connectivity",
                   "consider_line_temperature", "tdpf_delay_s"]
COMPOSITE_KWARGS = ["recycle", "init_vm_pu", "init_va_degree", "permc_spec", "foo_option"]


def composite_values(k):
    d = NAMED_DEFAULTS.get(k, None)
    other = GRID[k][1] if k in GRID and len(GRID[k]) > 1 else 7
    vals = [{"__array__": [d, d]} if d is not None else {"__array__": [1.0, 2.0]},
            {"__array__": [d]} if d is not None else {"__array__": [60]},
            {"__array__": [other]} if other is not None else {"__array__": [5]},
            {"__array__": []},
            {"__series__": [d]} if d is not None else {"__series__": [1.0]},
            [d], [], {"__tuple__": [other]},
            {"__dict__": {"bus_pq": True, "trafo": False, "gen": False}}, {"__dict__": {}}]
    return vals


def composite_cases():
    out = []
    for k in COMPOSITE_NAMED + COMPOSITE_KWARGS:
        scal = GRID[k][1] if k in GRID and len(GRID[k]) > 1 else 3
        for ev in composite_values(k):
            if k in ("init_vm_pu", "init_va_degree") and isinstance(ev, dict) and "__dict__" in ev:
                continue
            for stored in ({}, {k: scal}, {"max_iteration": 25}, {k: {"__dict__": {"bus_pq": False}}} if k == "recycle" else {k: scal, "numba": False}):
                out.append({"net": "plain", "prerun": False, "stored": stored, "explicit": {k: ev}})
    # composite stored values against scalar / absent explicit ones
    for k in COMPOSITE_KWARGS:
        for sv in ({"__array__": [1.0, 1.0]}, {"__dict__": {"bus_pq": True}}, [1.0, 1.0]):
            if k in ("init_vm_pu", "init_va_degree") and isinstance(sv, dict) and "__dict__" in sv:
                continue
            for explicit in ({}, {k: None}, {"algorithm": "nr"}, {"tolerance_mva": 1e-6}):
                out.append({"net": "plain", "prerun": False, "stored": {k: sv}, "explicit": explicit})
    return out


def random_case(rng, grid=GRID, variants=VARIANTS):
    keys = [k for k in grid if k != "mode"]
    ns, ne = rng.randint(1, 4), rng.randint(1, 4)
    sk = rng.sample(keys, ns)
    ek = []
    for k in sk:
        if rng.random() < 0.6 and len(ek) < ne:
            ek.append(k)
    while len(ek) < ne:
        k = rng.choice(keys)
        if k not in ek:
            ek.append(k)
    stored = {k: rng.choice(grid[k]) for k in sk}
    explicit = {}
    for k in ek:
        # explicit default values are the interesting region: draw them with probability 1/2 for named keys
        if k in NAMED_DEFAULTS and rng.random() < 0.5:
            explicit[k] = NAMED_DEFAULTS[k]
        else:
            explicit[k] = rng.choice(grid[k])
    return {"net": rng.choice(variants), "prerun": rng.random() < 0.3, "stored": stored, "explicit": explicit}


_nets = {}


def base_net(case):
    key = (case["net"], bool(case["prerun"]))
    if key not in _nets:
        net = make_net(case["net"])
        if case["prerun"]:
            pp.runpp(net, numba=False)
        _nets[key] = net
    return _nets[key]


def term_of(case, f):
    return "intern tbl_ (run_options %s %s %s)" % (facts_lit(f), dict_lit(dec_dict(case["stored"])), dict_lit(dec_dict(case["explicit"])))


def check_cases(ctx, cases, label):
    terms, obs = [], []
    for i, case in enumerate(cases):
        net = base_net(case)
        f = facts_of(net)
        o, passed = oracle(ctx, net, case, stub=True)
        terms.append(term_of(case, f))
        obs.append((o, passed, g34(dec_dict(case["explicit"]))))
        shared = set(case["stored"]) & set(case["explicit"])
        ctx.case(case, nontrivial=bool(shared),
                 sample={"input": case, "facts": f, "impl_options": o, "impl_passed": passed} if (label == "single" and i in (40, 300)) else None)
        ctx.count(label)
        ctx.count("outcome_" + (o[1] if o[0:1] == ["err"] else "ok"))
        ctx.count("g34_" + str(obs[-1][2]))
        if shared:
            ctx.count("shared_keys_%d" % min(len(shared), 3))
        if defaulted_keys(dec_dict(case["stored"]), dec_dict(case["explicit"])):
            ctx.count("explicit_default_collides_with_stored")
    for k in list(GRID) + ["mode", "ac", "delta", "init_results", "p_lim_default", "q_lim_default", "pf", "hv", "flat", "dc",
                           "array", "series", "list", "dict", "object", "ValueError"]:
        INT.name(k)
    model = ctx.coq_eval("c34_" + label, "Base.QN C34.Model", terms, prelude=INT.prelude(), shard=120, timeout=900)
    for case, (o, passed, g), m in zip(cases, obs, model):
        ctx.corr_checked += 1
        m = INT.decode(m)
        mo, mp, mg = canon_model_dict(m[0]), canon_model_dict(m[1]), m[2]
        if mo != o:
            ctx.disagreement("net._options: impl %s / model %s" % (_diff(o, mo) if isinstance(mo, list) else o, ""), case)
        elif mp != passed:
            ctx.disagreement("_passed_runpp_parameters: impl %r / model %r" % (passed, mp), case)
        elif mg != g:
            ctx.disagreement("guard G34: harness %r / model %r" % (g, mg), case)


def real_cases(ctx, rng, n):
    """unstubbed runpp: the spec on net._options after the whole calculation, and stub == real on the option keys"""
    for _ in range(n):
        case = random_case(rng, REAL_GRID, ["plain", "zip", "gen"])
        case["prerun"] = False
        net = base_net(case)
        o_real, _ = oracle(ctx, net, case, stub=False)
        o_stub, _ = impl_options(net, case["stored"], case["explicit"], stub=True)
        ctx.case({"real": case}, nontrivial=bool(set(case["stored"]) & set(case["explicit"])))
        ctx.count("real_runpp")
        ctx.count("real_outcome_" + (o_real[1] if o_real[0:1] == ["err"] else "ok"))
        if o_real[0:1] != ["err"] and o_stub[0:1] != ["err"] and o_real != o_stub:
            ctx.disagreement("net._options after the whole runpp differs from the options right after _init_runpp_options: %s" % _diff(o_real, o_stub), case)


# ------------------------------------------------------------------ the run_control branch of runpp (outside the model)
CTRL_GRID = {k: v for k, v in REAL_GRID.items() if k not in ("numba",)}
CTRL_GRID["switch_rx_ratio"] = [2, 1]
CTRL_GRID["trafo3w_losses"] = ["hv", "star"]


def controlled_cases(ctx, rng, n):
    """runpp(net, run_control=True, continue_on_divergence=..., **explicit) with controllers in the net: EVERY power flow
    that is run inside (initial run, one per control iteration, the retry after repair_control) must be configured exactly
    like the plain call runpp(net, **explicit) - explicit arguments must not get lost on any of these paths (oracle), and
    the sequence of inner power flows, their keyword arguments, their net._options and the outcome must be the ones of
    C34.ModelCtl.run_control_case (correspondence).
    The numerical pipeline is replaced by a recorder that can simulate a diverging power flow."""
    import sys, pandapower.control
    prc = sys.modules["pandapower.control.run_control"]
    from pandapower.control.basic_controller import Controller
    from pandapower.auxiliary import LoadflowNotConverged

    class StepCtrl(Controller):
        def __init__(self, net, steps=1, **kw):
            super().__init__(net, **kw)
            self.steps, self.done, self.repairs = steps, 0, 0

        def is_converged(self, net):
            return self.done >= self.steps

        def control_step(self, net):
            self.done += 1

        def repair_control(self, net):
            self.repairs += 1

    terms, obs = [], []
    for _ in range(n):
        case = random_case(rng, CTRL_GRID, ["plain", "zip", "gen"])
        case["prerun"] = False
        explicit = {k: v for k, v in case["explicit"].items() if k != "run_control"}
        stored = case["stored"]
        # the arguments addressed to run_control itself travel in runpp's **kwargs
        ctl = {}
        if rng.random() < 0.75:
            ctl["continue_on_divergence"] = rng.random() < 0.8
        if rng.random() < 0.3:
            ctl["check_each_level"] = rng.random() < 0.5
        if rng.random() < 0.35:
            ctl["max_iter"] = rng.choice([0, 1, 2])
        # outside the guard Gctl (correspondence only): options that run_control overwrites, stored options under its keys
        outside = rng.random() < 0.25
        if outside:
            pick = rng.choice(["only_v_results", "recycle", "stored_only_v_results", "stored_recycle", "stored_cod"])
            if pick == "only_v_results":
                explicit["only_v_results"] = True
            elif pick == "recycle":
                explicit["recycle"] = False
            elif pick == "stored_only_v_results":
                stored = dict(stored, only_v_results=True)
            elif pick == "stored_recycle":
                stored = dict(stored, recycle=False)
            else:
                stored = dict(stored, continue_on_divergence=True)
        base = base_net(case)
        plain, _ = impl_options(base, stored, explicit, stub=True)
        fail = rng.choice([[], [2], [1], [2, 3], [3], [2, 4]])
        steps = [rng.randint(0, 3)] + ([rng.randint(0, 2)] if rng.random() < 0.35 else [])
        initial_run = rng.random() < 0.8
        net = copy.deepcopy(base)
        for lvl, st in enumerate(steps):
            StepCtrl(net, steps=st, level=lvl, initial_run=initial_run)
        net.user_pf_options = {}
        if stored:
            pp.set_user_pf_options(net, **stored)
        f = facts_of(net)
        inner, inner_kwargs = [], []
        orig, orig_run = prun._powerflow, prc.runpp

        def pf(n_, **kw):
            inner[-1] = canon_dict(copy.deepcopy(dict(n_._options)))
            n_["converged"] = False                      # powerflow.py:38
            if len(inner) in fail:
                raise LoadflowNotConverged("simulated divergence of inner power flow %d" % len(inner))
            n_["converged"] = True

        def run_wrapper(n_, **kw):
            inner_kwargs.append(canon_dict(kw))
            inner.append(None)
            try:
                return orig_run(n_, **kw)
            except Exception as e:
                if inner[-1] is None:
                    inner[-1] = ["err", type(e).__name__]   # raised by the option code, before the calculation
                raise
        prun._powerflow = pf
        prc.runpp = run_wrapper
        outcome = "ok"
        try:
            try:
                pp.runpp(net, run_control=True, **ctl, **explicit)
            except Exception as e:
                outcome = type(e).__name__
        finally:
            prun._powerflow = orig
            prc.runpp = orig_run
        full_explicit = dict(explicit, run_control=True, **ctl)
        desc = {"controlled": True, "net": case["net"], "stored": stored, "explicit": full_explicit, "diverging_runs": fail,
                "steps": steps, "initial_run": initial_run}
        gctl = not (set(stored) & {"kwargs", "continue_on_divergence", "check_each_level", "max_iter", "ctrl_variables", "run",
                                   "recycle", "only_v_results"}) and \
            not (set(full_explicit) & {"kwargs", "ctrl_variables", "run", "recycle", "only_v_results"})
        if gctl:
            for j, o in enumerate(inner):
                if o != plain:
                    ctx.violation("spec", "power flow #%d inside runpp(run_control=True, %r) is not configured like the plain call "
                                  "with the same explicit arguments: %s" % (j + 1, ctl, _diff(o, plain)), desc)
                    break
        else:
            ctx.count("controlled_outside_guard")
        ctx.case(desc, nontrivial=bool(set(stored) & set(explicit)) and len(inner) >= 2)
        ctx.count("controlled_runs")
        ctx.count("controlled_inner_power_flows", len(inner))
        ctx.count("controlled_outcome_" + outcome)
        ctx.count("controlled_levels_%d" % len(steps))
        cod = bool(ctl.get("continue_on_divergence", False))
        if cod and any(fl <= len(inner) for fl in fail):
            ctx.count("controlled_with_repair_retry")
        terms.append("intern tbl_ (run_control_case %s %s %s %s %s %s)" % (
            facts_lit(f), cq.lst([cq.nat(x - 1) for x in fail]), cq.lst([cq.nat(x) for x in steps]), cq.b(initial_run),
            dict_lit(stored), dict_lit(full_explicit)))
        obs.append((desc, inner, outcome, inner_kwargs, plain, gctl))
    for k in ["ok", "LoadflowNotConverged", "ControllerNotConverged", "NetCalculationNotConverged", "kwargs", "run_control",
              "continue_on_divergence", "check_each_level", "max_iter", "NotImplementedError", "KeyError", "ValueError",
              "UserWarning", "only_v_results", "recycle", "dict", "array", "list", "series", "object"] + list(GRID) + \
            ["mode", "ac", "delta", "init_results", "p_lim_default", "q_lim_default", "pf", "hv", "flat", "dc"]:
        INT.name(k)
    model = ctx.coq_eval("c34_control", "Base.QN C34.Model C34.ModelCtl", terms, prelude=INT.prelude(), shard=60, timeout=900)
    for (desc, inner, outcome, inner_kwargs, plain, gctl), m in zip(obs, model):
        ctx.corr_checked += 1
        m = INT.decode(m)
        m_trace = [canon_model_dict(x) for x in m[0]]
        m_inner_kw = canon_model_dict(m[2])
        if m_trace != inner:
            ctx.disagreement("inner power flows of the run_control branch: impl %d runs / model %d runs; first difference %s" % (
                len(inner), len(m_trace), next((_diff(a, b) for a, b in zip(inner, m_trace) if a != b), "length")), desc)
        elif m[1] != outcome:
            ctx.disagreement("outcome of runpp(run_control=True): impl %s / model %s" % (outcome, m[1]), desc)
        elif any(kw != m_inner_kw for kw in inner_kwargs):
            ctx.disagreement("keyword arguments of an inner run: impl %r / model %r" % (inner_kwargs[0], m_inner_kw), desc)
        elif canon_model_dict(m[3]) != plain:
            ctx.disagreement("plain call of the controlled case: %s" % _diff(plain, canon_model_dict(m[3])), desc)
        elif m[4] != gctl:
            ctx.disagreement("guard Gctl: harness %r / model %r" % (gctl, m[4]), desc)


def corpus_cases():
    import glob, os
    out = []
    for p in sorted(glob.glob(os.path.join(cq.VERIF, "corpus", "C34", "*.json"))):
        out.append(json.load(open(p))["case"])
    return out


def run(ctx):
    rng = ctx.rng
    cor = corpus_cases()
    if cor:
        check_cases(ctx, cor, "corpus")
    check_cases(ctx, single_cases(), "single")
    comp = composite_cases()
    stride = ctx.n(2, 1)                                  # quick tier: every second composite case (offset drawn)
    check_cases(ctx, comp[rng.randrange(stride)::stride], "composite")
    check_cases(ctx, [random_case(rng) for _ in range(ctx.n(150, 3000))], "multi")
    real_cases(ctx, rng, ctx.n(16, 500))
    controlled_cases(ctx, rng, ctx.n(40, 800))
    ctx.extra["exhaustive_single_key_pairs"] = True


def replay(ctx, rec):
    case = rec["case"].get("real", rec["case"])
    check_cases(ctx, [case], "replay")
    if "real" in rec["case"]:
        oracle(ctx, base_net(case), case, stub=False)
