"""C34 — explicit runpp arguments take precedence over stored user options.

Correspondence: runpp(net, **explicit) with net.user_pf_options = stored on tiny nets, observed at
net._options right after _init_runpp_options (the numerical pipeline `_powerflow` is replaced by a recorder in
this process only) and at the return value of _passed_runpp_parameters, versus C34.Model.run_options.
Enumeration: for every runpp option key, all (stored, explicit) value pairs incl. "absent" (exhaustive singles),
plus random multi-key combinations on several net variants (ZIP loads, HV lines, two slacks, existing results).
Oracle (independent of the model): (O1) net._options equals the options of the same call with the explicitly
passed keys removed from the stored options; (O2) plainly copied explicit options show up with the passed value;
(O3) stored options of keys that were not passed are applied; the same on real (unstubbed) runpp calls."""
import copy, json, math
from fractions import Fraction
import numpy as np
import pandapower as pp
import pandapower.run as prun
import pandapower.auxiliary as paux
from vf import coqrun as cq

RULE = ("exhaustive (stored, explicit) value pairs incl. absent for each of 31 runpp option keys on a 2-bus net, plus random "
        "multi-key combinations (1-4 stored, 1-4 explicit keys, 60% forced overlap) on 4 net variants with/without previous "
        "results; non-trivial = stored and explicit are both non-empty and share at least one key")
ASSUMPTIONS = ["net._options is observed directly after _init_runpp_options (numerical pipeline replaced by a recorder in the "
               "harness process); a sample of real runpp calls checks that the pipeline does not rewrite the compared keys",
               "facts about net/installation (numba, lightsim2grid, ZIP loads, HV lines, slack count, mean vm_pu) are computed by "
               "the harness and passed to the model as inputs",
               "python == on {bool,int,float,str,None} as modelled by C34.Model.val_eqb"]
TRUSTED = ["monkeypatch of pandapower.run._powerflow / _passed_runpp_parameters (recorders) in the harness process"]
KIND = "C34-explicit-default-ignored"

NAMED_DEFAULTS = {"algorithm": "nr", "calculate_voltage_angles": True, "init": "auto", "max_iteration": "auto",
                  "tolerance_mva": 1e-8, "trafo_model": "t", "trafo_loading": "current", "enforce_q_lims": False,
                  "check_connectivity": True, "voltage_depend_loads": True, "consider_line_temperature": False,
                  "run_control": False, "distributed_slack": False, "tdpf": False, "tdpf_delay_s": None}
PLAIN = ["tolerance_mva", "trafo_model", "trafo_loading", "enforce_q_lims", "check_connectivity",
         "consider_line_temperature", "algorithm", "distributed_slack", "tdpf", "tdpf_delay_s", "switch_rx_ratio",
         "trafo3w_losses", "v_debug", "neglect_open_switch_branches", "recycle", "only_v_results", "use_umfpack",
         "permc_spec", "tdpf_update_r_theta"]
GRID = {
    "algorithm": ["nr", "bfsw", "gs", "iwamoto_nr", "fdbx", "foo"],
    "calculate_voltage_angles": [True, False, "auto", 1],
    "init": ["auto", "flat", "dc", "results"],
    "max_iteration": ["auto", 10, 25],
    # float option: besides clearly different values, values very close to the default on both sides (1 ulp, 1e-7 relative,
    # factor 1.5) and much smaller ones - "passed" must not depend on how far the value is from the default
    "tolerance_mva": [1e-8, 1e-3, 1e-6, 1e-10, 1e-9, 5e-9, 9.999999e-9, 1.0000001e-8, 1.5e-8,
                      float(np.nextafter(1e-8, 1.0)), float(np.nextafter(1e-8, 0.0)), 1e-14],
    "trafo_model": ["t", "pi"],
    "trafo_loading": ["current", "power"],
    "enforce_q_lims": [False, True, 0],
    "check_connectivity": [True, False],
    "voltage_depend_loads": [True, False],
    "consider_line_temperature": [False, True],
    "run_control": [False, True],
    "distributed_slack": [False, True],
    "tdpf": [False, True],
    "tdpf_delay_s": [None, 60],
    # **kwargs keys
    "numba": [True, False],
    "lightsim2grid": ["auto", True, False],
    "switch_rx_ratio": [2, 1],
    "trafo3w_losses": ["hv", "star"],
    "v_debug": [False, True],
    "neglect_open_switch_branches": [False, True],
    "only_v_results": [False, True],
    "use_umfpack": [True, False],
    "permc_spec": [None, "NATURAL"],
    "init_vm_pu": [None, "auto", "flat", 1.0],
    "init_va_degree": [None, "dc", "flat"],
    "delta_q": [0, 1e-10, 1e-12, 5e-9],
    "tdpf_update_r_theta": [True, False],
    "recycle": [None, False],
    "foo_option": [3, 4],
    "mode": ["pf", "opf"],          # not a runpp argument, but accepted by set_user_pf_options
}
# values with which an unstubbed runpp on the variants still terminates quickly
REAL_GRID = {
    "algorithm": ["nr", "iwamoto_nr", "bfsw"],
    "calculate_voltage_angles": [True, False],
    "init": ["auto", "flat", "dc"],
    "max_iteration": ["auto", 10, 25],
    "tolerance_mva": [1e-8, 1e-3, 1e-6, 5e-9, 1.5e-8],
    "trafo_model": ["t", "pi"],
    "trafo_loading": ["current", "power"],
    "enforce_q_lims": [False, True],
    "check_connectivity": [True, False],
    "voltage_depend_loads": [True, False],
    "consider_line_temperature": [False],
    "numba": [False],
    "switch_rx_ratio": [2, 1],
    "trafo3w_losses": ["hv", "star"],
}


# ------------------------------------------------------------------ nets
def make_net(variant):
    net = pp.create_empty_network()
    if variant == "hv2slack":
        b1 = pp.create_bus(net, 110.); b2 = pp.create_bus(net, 110.); b3 = pp.create_bus(net, 110.)
        pp.create_ext_grid(net, b1, vm_pu=1.0); pp.create_ext_grid(net, b3, vm_pu=1.0)
        pp.create_line(net, b1, b2, 2.0, "149-AL1/24-ST1A 110.0"); pp.create_line(net, b2, b3, 2.0, "149-AL1/24-ST1A 110.0")
        pp.create_load(net, b2, 5.0, 1.0)
        return net
    b1 = pp.create_bus(net, 20.); b2 = pp.create_bus(net, 20.)
    pp.create_ext_grid(net, b1, vm_pu=1.03125 if variant == "gen" else 1.0)
    pp.create_line(net, b1, b2, 1.0, "NAYY 4x150 SE")
    if variant == "zip":
        pp.create_load(net, b2, 0.25, 0.0625, const_z_p_percent=50., const_i_p_percent=25.,
                       const_z_q_percent=50., const_i_q_percent=25.)
    else:
        pp.create_load(net, b2, 0.25, 0.0625)
    if variant == "gen":
        b3 = pp.create_bus(net, 20.)
        pp.create_line(net, b2, b3, 1.0, "NAYY 4x150 SE")
        pp.create_gen(net, b3, p_mw=0.125, vm_pu=1.0)
    return net


VARIANTS = ["plain", "zip", "gen", "hv2slack"]


def facts_of(net):
    """the facts read by _init_runpp_options, computed from the tables (mirrors auxiliary.py:1729-1786, 1322)"""
    zipl = bool(np.any(net.load[["const_z_p_percent", "const_i_p_percent", "const_z_q_percent", "const_i_q_percent"]].values))
    hv = False
    is_hv = np.nonzero(net.bus.vn_kv.values > 70)[0]
    if any(is_hv) > 0:
        line_buses = set(net.line.from_bus.values) & set(net.line.to_bus.values)
        hv = any(a in line_buses for a in net.bus.index[is_hv])
    eg = net.ext_grid[net.ext_grid.in_service]
    gn = net.gen[net.gen.in_service]
    cnt = len(eg) + len(gn)
    mean = (eg.vm_pu.values.sum() + gn.vm_pu.values.sum()) / cnt
    nslack = len(eg) + len(net.gen.query("slack & in_service"))
    return {"numba": bool(paux.NUMBA_INSTALLED), "ls2g": bool(paux.lightsim2grid_available), "zip": zipl, "hv": bool(hv),
            "facts": False, "res_empty": len(net.res_bus) == 0, "vm": float(mean), "multi": nslack > 1,
            "blocked": False, "tdpf_ok": False}


# ------------------------------------------------------------------ literals
class Interner:
    """string literals are emitted once (prelude definitions) and referred to by name; the model output refers to the
    same table by index (C34.Model.intern)"""

    def __init__(self):
        self.tbl = []
        self.idx = {}

    def name(self, s):
        if s not in self.idx:
            self.idx[s] = len(self.tbl)
            self.tbl.append(s)
        return "s%d_" % self.idx[s]

    def prelude(self):
        lines = ["Definition s%d_ : string := %s." % (i, cq.s(t)) for i, t in enumerate(self.tbl)]
        lines.append("Definition tbl_ : list string := %s." % cq.lst(["s%d_" % i for i in range(len(self.tbl))]))
        return "\n".join(lines)

    def decode(self, x):
        if isinstance(x, list):
            if len(x) == 2 and x[0] is None and isinstance(x[1], int) and not isinstance(x[1], bool):
                return self.tbl[x[1]]
            return [self.decode(i) for i in x]
        return x


INT = Interner()


def val_lit(v):
    if v is None:
        return "VNone"
    if isinstance(v, (bool, np.bool_)):
        return "(VB %s)" % cq.b(bool(v))
    if isinstance(v, (int, np.integer)):
        return "(VZ %s)" % cq.z(int(v))
    if isinstance(v, (float, np.floating)):
        return "(VQ %s)" % cq.q(float(v))
    if isinstance(v, str):
        return "(VS %s)" % INT.name(v)
    raise ValueError("no literal for %r" % (v,))


def dict_lit(d):
    return cq.lst(["(%s, %s)" % (INT.name(k), val_lit(v)) for k, v in d.items()])


def facts_lit(f):
    return ("{| f_numba_installed := %s; f_ls2g_available := %s; f_zip_loads := %s; f_hv_line := %s; f_with_facts := %s; "
            "f_res_bus_empty := %s; f_init_vm_auto := %s; f_multi_slack := %s; f_ls2g_blocked := %s; f_tdpf_ok := %s |}" % (
                cq.b(f["numba"]), cq.b(f["ls2g"]), cq.b(f["zip"]), cq.b(f["hv"]), cq.b(f["facts"]), cq.b(f["res_empty"]),
                val_lit(f["vm"]), cq.b(f["multi"]), cq.b(f["blocked"]), cq.b(f["tdpf_ok"])))


def canon_val(v):
    """tagged canonical form shared by impl observations and parsed model output"""
    if v is None:
        return None
    if isinstance(v, cq.Err):
        return ["err", v.s]
    if isinstance(v, (bool, np.bool_)):
        return ["b", bool(v)]
    if isinstance(v, (int, np.integer)):
        return ["z", int(v)]
    if isinstance(v, Fraction):
        return ["q", "%d/%d" % (v.numerator, v.denominator)]
    if isinstance(v, (float, np.floating)):
        fr = Fraction(float(v))
        return ["q", "%d/%d" % (fr.numerator, fr.denominator)]
    if isinstance(v, str):
        return ["s", v]
    return ["other", repr(v)]


def canon_dict(d):
    return sorted([[k, canon_val(v)] for k, v in d.items()])


def canon_model_dict(m):
    if isinstance(m, cq.Err):
        return ["err", m.s]
    if m is None:
        return None
    return sorted([[kv[0], canon_val(kv[1])] for kv in m])


# ------------------------------------------------------------------ running the impl
class Recorder:
    """replaces pandapower.run._powerflow (records net._options) and wraps _passed_runpp_parameters"""

    def __init__(self):
        self.opts = None
        self.passed = "unset"
        self._pf = prun._powerflow
        self._pp = prun._passed_runpp_parameters

    def __enter__(self):
        rec = self

        def pf(net, **kw):
            rec.opts = copy.deepcopy(dict(net._options))

        def passed(loc):
            r = rec._pp(loc)
            rec.passed = copy.deepcopy(r)
            return r

        prun._powerflow = pf
        prun._passed_runpp_parameters = passed
        return self

    def __exit__(self, *a):
        prun._powerflow = self._pf
        prun._passed_runpp_parameters = self._pp


def impl_options(base_net, stored, explicit, stub=True):
    """returns (canonical options | ['err', class], canonical passed | None)"""
    # the recorder path does not touch the tables: reuse the object; the real path works on a copy
    net = base_net if stub else copy.deepcopy(base_net)
    net.user_pf_options = {}
    if stored:
        pp.set_user_pf_options(net, **stored)
    if stub:
        with Recorder() as rec:
            try:
                pp.runpp(net, **explicit)
                out = canon_dict(rec.opts)
            except Exception as e:
                out = ["err", type(e).__name__]
            passed = None if rec.passed in (None, "unset") else canon_dict(rec.passed)
        return out, passed
    import io, contextlib
    try:
        with contextlib.redirect_stdout(io.StringIO()):
            pp.runpp(net, **explicit)
        return canon_dict(dict(net._options)), None
    except Exception as e:
        return ["err", type(e).__name__], None


def py_eq(a, b):
    try:
        return bool(a == b)
    except Exception:
        return False


def defaulted_keys(stored, explicit):
    """explicit named keys whose value == the signature default and which collide with a stored option (not G34_key)"""
    return [k for k, v in explicit.items() if k in NAMED_DEFAULTS and py_eq(v, NAMED_DEFAULTS[k]) and k in stored]


def g34(explicit):
    return all(not py_eq(v, NAMED_DEFAULTS[k]) for k, v in explicit.items() if k in NAMED_DEFAULTS)


def lookup(opts, k):
    for kk, v in opts:
        if kk == k:
            return v
    return "absent"


def oracle(ctx, base_net, case, stub=True):
    """spec on the impl, independent of the model.  returns the impl observation of the case."""
    stored, explicit = case["stored"], case["explicit"]
    o, passed = impl_options(base_net, stored, explicit, stub)
    reduced = {k: v for k, v in stored.items() if k not in explicit}
    o_ref = o if reduced == stored else impl_options(base_net, reduced, explicit, stub)[0]
    D = defaulted_keys(stored, explicit)
    tag = "" if stub else " (real runpp)"
    if o != o_ref:
        # exactly the recorded defect?  after removing only the stored entries that collide with an explicit value equal to
        # the default, no difference may remain
        kind = "spec"
        if D:
            o_guard, _ = impl_options(base_net, {k: v for k, v in stored.items() if k not in D}, explicit, stub)
            if o_guard == o_ref:
                kind = KIND
        diff = _diff(o, o_ref)
        ctx.violation(kind, "stored option(s) influence net._options although the key was passed explicitly%s: %s" % (tag, diff), case)
    if o[0:1] != ["err"]:
        for k, v in explicit.items():
            if k in PLAIN and lookup(o, k) != canon_val(v):
                known = k in D and lookup(o, k) == canon_val(stored[k])
                ctx.violation(KIND if known else "spec",
                              "explicit %s=%r does not reach net._options (found %r, stored %r)%s" % (k, v, lookup(o, k), stored.get(k, "absent"), tag), case)
        for k, v in reduced.items():
            if lookup(o, k) != canon_val(v):
                ctx.violation("spec", "stored %s=%r is not applied although the argument was not passed (found %r)%s" % (k, v, lookup(o, k), tag), case)
    return o, passed


def _diff(a, b):
    if a[0:1] == ["err"] or b[0:1] == ["err"]:
        return "%s vs %s" % (a if a[0:1] == ["err"] else "ok", b if b[0:1] == ["err"] else "ok")
    da, db = dict((k, json.dumps(v)) for k, v in a), dict((k, json.dumps(v)) for k, v in b)
    return "; ".join("%s: %s vs %s" % (k, da.get(k), db.get(k)) for k in sorted(set(da) | set(db)) if da.get(k) != db.get(k))[:300]


# ------------------------------------------------------------------ case generation
def single_cases():
    out = []
    for k, vals in GRID.items():
        for sv in ["absent"] + vals:
            for ev in ["absent"] + vals:
                if k == "mode" and ev != "absent":
                    continue   # runpp(mode=...) is not an argument of the pipeline; stored only
                stored = {} if sv == "absent" else {k: sv}
                explicit = {} if ev == "absent" else {k: ev}
                out.append({"net": "plain", "prerun": False, "stored": stored, "explicit": explicit})
    return out


def random_case(rng, grid=GRID, variants=VARIANTS):
    keys = [k for k in grid if k != "mode"]
    ns, ne = rng.randint(1, 4), rng.randint(1, 4)
    sk = rng.sample(keys, ns)
    ek = []
    for k in sk:
        if rng.random() < 0.6 and len(ek) < ne:
            ek.append(k)
    while len(ek) < ne:
        k = rng.choice(keys)
        if k not in ek:
            ek.append(k)
    stored = {k: rng.choice(grid[k]) for k in sk}
    explicit = {}
    for k in ek:
        # explicit default values are the interesting region: draw them with probability 1/2 for named keys
        if k in NAMED_DEFAULTS and rng.random() < 0.5:
            explicit[k] = NAMED_DEFAULTS[k]
        else:
            explicit[k] = rng.choice(grid[k])
    return {"net": rng.choice(variants), "prerun": rng.random() < 0.3, "stored": stored, "explicit": explicit}


_nets = {}


def base_net(case):
    key = (case["net"], bool(case["prerun"]))
    if key not in _nets:
        net = make_net(case["net"])
        if case["prerun"]:
            pp.runpp(net, numba=False)
        _nets[key] = net
    return _nets[key]


def term_of(case, f):
    return "intern tbl_ (run_options %s %s %s)" % (facts_lit(f), dict_lit(case["stored"]), dict_lit(case["explicit"]))


def check_cases(ctx, cases, label):
    terms, obs = [], []
    for i, case in enumerate(cases):
        net = base_net(case)
        f = facts_of(net)
        o, passed = oracle(ctx, net, case, stub=True)
        terms.append(term_of(case, f))
        obs.append((o, passed, g34(case["explicit"])))
        shared = set(case["stored"]) & set(case["explicit"])
        ctx.case(case, nontrivial=bool(shared),
                 sample={"input": case, "facts": f, "impl_options": o, "impl_passed": passed} if (label == "single" and i in (40, 300)) else None)
        ctx.count(label)
        ctx.count("outcome_" + (o[1] if o[0:1] == ["err"] else "ok"))
        ctx.count("g34_" + str(obs[-1][2]))
        if shared:
            ctx.count("shared_keys_%d" % min(len(shared), 3))
        if defaulted_keys(case["stored"], case["explicit"]):
            ctx.count("explicit_default_collides_with_stored")
    for k in list(GRID) + ["mode", "ac", "delta", "init_results", "p_lim_default", "q_lim_default", "pf", "hv", "flat", "dc"]:
        INT.name(k)
    model = ctx.coq_eval("c34_" + label, "Base.QN C34.Model", terms, prelude=INT.prelude(), shard=120, timeout=900)
    for case, (o, passed, g), m in zip(cases, obs, model):
        ctx.corr_checked += 1
        m = INT.decode(m)
        mo, mp, mg = canon_model_dict(m[0]), canon_model_dict(m[1]), m[2]
        if mo != o:
            ctx.disagreement("net._options: impl %s / model %s" % (_diff(o, mo) if isinstance(mo, list) else o, ""), case)
        elif mp != passed:
            ctx.disagreement("_passed_runpp_parameters: impl %r / model %r" % (passed, mp), case)
        elif mg != g:
            ctx.disagreement("guard G34: harness %r / model %r" % (g, mg), case)


def real_cases(ctx, rng, n):
    """unstubbed runpp: the spec on net._options after the whole calculation, and stub == real on the option keys"""
    for _ in range(n):
        case = random_case(rng, REAL_GRID, ["plain", "zip", "gen"])
        case["prerun"] = False
        net = base_net(case)
        o_real, _ = oracle(ctx, net, case, stub=False)
        o_stub, _ = impl_options(net, case["stored"], case["explicit"], stub=True)
        ctx.case({"real": case}, nontrivial=bool(set(case["stored"]) & set(case["explicit"])))
        ctx.count("real_runpp")
        ctx.count("real_outcome_" + (o_real[1] if o_real[0:1] == ["err"] else "ok"))
        if o_real[0:1] != ["err"] and o_stub[0:1] != ["err"] and o_real != o_stub:
            ctx.disagreement("net._options after the whole runpp differs from the options right after _init_runpp_options: %s" % _diff(o_real, o_stub), case)


# ------------------------------------------------------------------ the run_control branch of runpp (outside the model)
CTRL_GRID = {k: v for k, v in REAL_GRID.items() if k not in ("numba",)}
CTRL_GRID["switch_rx_ratio"] = [2, 1]
CTRL_GRID["trafo3w_losses"] = ["hv", "star"]


def controlled_cases(ctx, rng, n):
    """runpp(net, run_control=True, continue_on_divergence=..., **explicit) with a controller in the net: EVERY power flow
    that is run inside (initial run, one per control iteration, the retry after repair_control) must be configured exactly
    like the plain call runpp(net, **explicit) - explicit arguments must not get lost on any of these paths.
    The numerical pipeline is replaced by a recorder that can simulate a diverging power flow."""
    from pandapower.control.basic_controller import Controller
    from pandapower.auxiliary import LoadflowNotConverged

    class StepCtrl(Controller):
        def __init__(self, net, steps=1, **kw):
            super().__init__(net, **kw)
            self.steps, self.done, self.repairs = steps, 0, 0

        def is_converged(self, net):
            return self.done >= self.steps

        def control_step(self, net):
            self.done += 1

        def repair_control(self, net):
            self.repairs += 1

    for _ in range(n):
        case = random_case(rng, CTRL_GRID, ["plain", "zip", "gen"])
        case["prerun"] = False
        explicit = {k: v for k, v in case["explicit"].items() if k != "run_control"}
        stored = case["stored"]
        base = base_net(case)
        plain, _ = impl_options(base, stored, explicit, stub=True)
        if plain[0:1] == ["err"]:
            continue
        fail = rng.choice([[], [2], [1], [2, 3], [3]])
        cod = rng.random() < 0.75
        net = copy.deepcopy(base)
        StepCtrl(net, steps=rng.randint(1, 2))
        net.user_pf_options = {}
        if stored:
            pp.set_user_pf_options(net, **stored)
        inner = []
        orig = prun._powerflow

        def pf(n_, **kw):
            inner.append(canon_dict(copy.deepcopy(dict(n_._options))))
            if len(inner) in fail:
                raise LoadflowNotConverged("simulated divergence of inner power flow %d" % len(inner))
            n_["converged"] = True
        prun._powerflow = pf
        outcome = "ok"
        try:
            try:
                pp.runpp(net, run_control=True, continue_on_divergence=cod, **explicit)
            except Exception as e:
                outcome = type(e).__name__
        finally:
            prun._powerflow = orig
        desc = {"controlled": True, "stored": stored, "explicit": explicit, "diverging_runs": fail, "continue_on_divergence": cod}
        for j, o in enumerate(inner):
            if o != plain:
                ctx.violation("spec", "power flow #%d inside runpp(run_control=True%s) is not configured like the plain call with the "
                              "same explicit arguments: %s" % (j + 1, ", continue_on_divergence=True" if cod else "", _diff(o, plain)), desc)
                break
        ctx.case(desc, nontrivial=bool(set(stored) & set(explicit)) and len(inner) >= 2)
        ctx.count("controlled_runs")
        ctx.count("controlled_inner_power_flows", len(inner))
        ctx.count("controlled_outcome_" + outcome)
        if cod and any(f <= len(inner) for f in fail):
            ctx.count("controlled_with_repair_retry")


def corpus_cases():
    import glob, os
    out = []
    for p in sorted(glob.glob(os.path.join(cq.VERIF, "corpus", "C34", "*.json"))):
        out.append(json.load(open(p))["case"])
    return out


def run(ctx):
    rng = ctx.rng
    cor = corpus_cases()
    if cor:
        check_cases(ctx, cor, "corpus")
    check_cases(ctx, single_cases(), "single")
    check_cases(ctx, [random_case(rng) for _ in range(ctx.n(150, 3000))], "multi")
    real_cases(ctx, rng, ctx.n(16, 500))
    controlled_cases(ctx, rng, ctx.n(40, 800))
    ctx.extra["exhaustive_single_key_pairs"] = True


def replay(ctx, rec):
    case = rec["case"].get("real", rec["case"])
    check_cases(ctx, [case], "replay")
    if "real" in rec["case"]:
        oracle(ctx, base_net(case), case, stub=False)
