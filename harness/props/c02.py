"""C02 — power flow honours the documented element equivalent circuits.

Correspondence (stage-wise, chained inside the model): for every branch of generated networks the model C02.Model / C02.Run
predicts (a) the ppc branch row BR_R BR_X BR_G BR_B *_ASYM TAP SHIFT BR_STATUS RATE_A from the element parameters,
(b) the four Yf/Yt stamps of makeYbus, (c) the branch flows PF QF PT QT of pfsoln from the solved voltages, (d) i_ka of
_get_branch_flows and the loading of res_line / res_trafo / res_trafo3w, (e) for every three-winding transformer the result
columns p/q_hv, p/q_mv, p/q_lv, pl/ql from its three rows (C02.Model3w.t3_results); sqrt/trig oracles come from python math and
the model returns the residual of each oracle's defining equation (hypothesis validation: incl. the five square roots of the
3W vk conversion, each block's x oracle, and Kirchhoff's current law at the star point for C02_t3_losses_star).
Oracle (independent of the model): a float reference implementation of the documented circuits in physical units
(vf/c02_gen.py ref_*) evaluated on the reported bus voltages must reproduce every column of res_line, res_trafo,
res_trafo3w, res_impedance; the documented pairwise short-circuit data of a 3W transformer (vkr resp. vk relative to the smaller
rating of the pair) must be reproduced by the r/x of the ppc rows of its star branches; DC power flow: vm = 1, q = 0, pl = 0, p_from = -p_to = (theta_f - theta_t - shift)/(x tap)."""
import json, math, os, glob
import numpy as np
import pandapower as pp
from fractions import Fraction
from vf import coqrun as cq
from vf import c02_gen as g

RULE = ("networks with one 110 kV slack bus, 2-4 20 kV buses, 1-6 lines (per-km data, parallel 1-2, df, g, c, optional temperature "
        "correction, in/out of service, parallel lines), 1-2 two-winding transformers (tap changer Ratio/Symmetrical/Ideal/none on "
        "hv/lv side, tap_step_degree 0/NaN/30/90/-60, shift 0/150/+-30, second tap changer tap2_* in 25 %, parallel, df, i0/pfe incl. 0 and the clipped case, leakage "
        "ratios), 0-1 three-winding transformers (terminal and star-point tap, loss side hv/mv/lv/star), impedance (series and shunt asymmetries drawn independently: only x, only r, both, none; g/b at both "
        "ends), xward, impedance bus-bus switch, shunt, sgen; options trafo_model t/pi, trafo_loading current/power, "
        "calculate_voltage_angles on/off, consider_line_temperature, switch_rx_ratio, sn_mva 1/10/100, f 50/60; "
        "non-trivial = converged net with a tap changer off neutral or a 3W transformer or an impedance")
ASSUMPTIONS = ["runpp (Newton-Raphson) is an oracle: its voltages are inputs of the flow/result stages",
               "sqrt/sin/cos/arctan/arcsin are oracle inputs computed by python math; the residuals of their defining equations are "
               "returned by the model and checked (<= 1e-6 absolute on values up to 1e4)",
               "lines connect buses of equal vn_kv (documented restriction of the line model)",
               "TDPF, FACTS elements, tabular taps inside these nets (C31), 3W star-point taps with tap_step_degree other than 0/NaN are not generated"]
TRUSTED = ["float reference implementation of the documented element models in harness/vf/c02_gen.py (ref_*)",
           "mapping ppc branch rows -> internal Yf/Yt rows through ppc['internal']['branch_is']"]
# the defect C02-trafo3w-star-tap-nan-degree was repaired in /repo; its guard only feeds a histogram key now


def _cmp_table(ctx, d, net, table, i, ref, what, tol=2e-6):
    bad = []
    for col, v in ref.items():
        got = float(net[table][col].iat[i])
        if not g.close(got, v, tol, 1e-9):
            bad.append("%s: reported %.9g, documented model %.9g" % (col, got, v))
    if bad:
        ctx.violation("spec", "%s[%d] (%s): %s" % (table, i, what, "; ".join(bad[:4])), d)
        ctx.count("oracle_bad_" + table)


def spec_oracle(ctx, d, net):
    for i, l in enumerate(d["lines"]):
        if l["in"]:
            _cmp_table(ctx, d, net, "res_line", i, g.ref_line(net, d, i), "pi line")
    for i, t in enumerate(d["t2"]):
        if t["in"]:
            _cmp_table(ctx, d, net, "res_trafo", i, g.ref_trafo(net, d, i), "2W transformer %s tap=%s" % (d["opt"]["trafo_model"], t["tap"]))
    for i, w in enumerate(d["t3"]):
        if w["in"]:
            _cmp_table(ctx, d, net, "res_trafo3w", i, g.ref_trafo3w(net, d, i), "3W transformer tap=%s star=%s" % (w["tap"], w["star"]))
    for i, im in enumerate(d["imp"]):
        if im["in"]:
            _cmp_table(ctx, d, net, "res_impedance", i, g.ref_impedance(net, d, i), "impedance")
    for i in range(len(net.shunt)):
        _cmp_table(ctx, d, net, "res_shunt", i, g.ref_shunt(net, d, i), "shunt")
    for i in range(len(net.ward)):
        _cmp_table(ctx, d, net, "res_ward", i, g.ref_ward(net, d, i), "ward")
    for i, x in enumerate(d["xward"]):
        if x["in"]:
            ref, p_src = g.ref_xward(net, d, i)
            _cmp_table(ctx, d, net, "res_xward", i, ref, "xward (PQ + Z + voltage source behind r+jx)")
            if abs(p_src) > 1e-6:
                ctx.violation("spec", "xward %d: the internal voltage source delivers p = %.9g MW (documented: PV node with p_mw = 0)" % (i, p_src), d)
    sw_idx = [j for j in net.switch.index if net.switch.et.at[j] == "b" and net.switch.closed.at[j] and net.switch.z_ohm.at[j] > 0]
    for i, j in enumerate(sw_idx):
        ref = g.ref_switch(net, d, i, j)
        pos = list(net.switch.index).index(j)
        _cmp_table(ctx, d, net, "res_switch", pos, ref, "impedance bus-bus switch")
    ctx.count("oracle_nets")


def dc_oracle(ctx, d, terms, pend):
    net = g.build(d)
    try:
        pp.rundcpp(net, trafo_model=d["opt"]["trafo_model"], calculate_voltage_angles=d["opt"]["cva"], switch_rx_ratio=d["opt"]["rx"],
                   trafo3w_losses=(d["t3"][0]["loss"] if d["t3"] else "hv"))
    except Exception as e:
        ctx.count("dc_failed_" + type(e).__name__)
        return
    from pandapower.pypower.idx_brch import F_BUS, T_BUS, BR_X, TAP, SHIFT, BR_STATUS, PF, PT, BR_R, BR_G, BR_B
    from pandapower.pypower.idx_bus import VA
    bad = []
    for tab, cols in (("res_line", ("p_from_mw", "p_to_mw")), ("res_trafo", ("p_hv_mw", "p_lv_mw")), ("res_impedance", ("p_from_mw", "p_to_mw"))):
        if len(net[tab]) == 0:
            continue
        r = net[tab]
        if not np.allclose(np.nan_to_num(r[cols[0]].values + r[cols[1]].values), 0, atol=1e-9):
            bad.append("%s: %s != -%s" % (tab, cols[0], cols[1]))
        if not np.allclose(np.nan_to_num(r["pl_mw"].values), 0, atol=1e-12):
            bad.append("%s: pl_mw != 0" % tab)
        qcols = [c for c in r.columns if c.startswith("q_") or c == "ql_mvar"]
        if not np.allclose(np.nan_to_num(r[qcols].values), 0, atol=1e-12):
            bad.append("%s: reactive power != 0" % tab)
    if len(net.res_trafo3w) and not (d["t3"][0]["loss"] == "star" and d["t3"][0]["pfe"] > 0):
        # (with trafo3w_losses="star" the iron losses are a real shunt at the auxiliary bus, which the DC model keeps: see C03)
        r = net.res_trafo3w
        if not np.allclose(np.nan_to_num(r.p_hv_mw.values + r.p_mv_mw.values + r.p_lv_mw.values), 0, atol=1e-9):
            bad.append("res_trafo3w: p_hv + p_mv + p_lv != 0")
    # linear model per ppc branch + model run_dc
    ppc = net._ppc
    br, bus = ppc["branch"].real, ppc["bus"].real
    sn = float(net.sn_mva)
    for k in range(br.shape[0]):
        if not br[k, BR_STATUS] or not ppc["internal"]["branch_is"][k]:
            continue
        f, t = int(br[k, F_BUS]), int(br[k, T_BUS])
        tap = br[k, TAP] if br[k, TAP] != 0 else 1.0
        vaf, vat = math.radians(bus[f, VA]), math.radians(bus[t, VA])
        exp = sn * (vaf - vat - math.radians(br[k, SHIFT])) / (br[k, BR_X] * tap)
        if not g.close(br[k, PF], exp, 1e-7, 1e-9) or not g.close(br[k, PT], -exp, 1e-7, 1e-9):
            bad.append("ppc branch %d: PF %.9g / PT %.9g, linear DC model %.9g" % (k, br[k, PF], br[k, PT], exp))
        row = "(mkB %s %s 0 0 0 0 0 0 %s %s true 0)" % (g.q(br[k, BR_R]), g.q(br[k, BR_X]), g.q(br[k, TAP]), g.q(br[k, SHIFT]))
        terms.append("OL [run_dc %s %s %s %s %s]" % (row, g.q(math.pi), g.q(vaf), g.q(vat), g.q(sn)))
        pend.append(("dc", d, k, [float(br[k, PF]), float(br[k, PT])]))
    for b_ in bad[:3]:
        ctx.violation("spec", "DC power flow: " + b_, d)
    ctx.count("dc_nets")


def expected_raise(d):
    for t in d["t2"]:
        if t["df"] <= 0:
            return "UserWarning"
        for tp in [t["tap"]] + ([t["tap2"]] if t.get("tap2") else []):
            if tp["type"] == "Ideal" and tp["side"] in ("hv", "lv") and (not g.isnan(tp["deg"]) and tp["deg"] != 0) and (not g.isnan(tp["pct"]) and tp["pct"] != 0):
                return "UserWarning"
    return None


def _one(ctx, d, terms, pend, sample=False):
    net = g.build(d)
    try:
        g.run_ac(net, d)
    except Exception as e:
        nm = type(e).__name__
        ctx.count("ac_raised_" + nm)
        exp = expected_raise(d)
        ctx.case(d, nontrivial=False)
        if exp is not None and nm != exp:
            ctx.violation("spec", "expected %s (df <= 0 or ideal phase shifter with both step values), impl raised %s" % (exp, nm), d)
        # the model must raise as well when the impl raises a UserWarning in the branch build
        if nm == "UserWarning" and exp is None:
            ctx.violation("spec", "impl raised UserWarning on a net without an invalid tap changer / df: %s" % str(e)[:200], d)
        return
    if expected_raise(d) is not None:
        ctx.violation("spec", "impl accepted an invalid transformer (df <= 0 or ideal phase shifter with tap_step_degree and tap_step_percent)", d)
    obs = g.observe(net, d)
    nontriv = any((t["tap"]["type"] and t["tap"]["pos"] != t["tap"]["neutral"]) for t in d["t2"]) or bool(d["t3"]) or bool(d["imp"])
    ctx.case(d, nontrivial=nontriv, sample=({"input": d, "impl_first_branch_row": [float(x) if not isinstance(x, bool) else x for x in obs[0].row]} if sample else None))
    for o in obs:
        extra = "ONone"
        if o.kind == "line" and o.active:
            r = net.res_line.iloc[o.idx]
            extra = "run_line_loading %s %s %s" % (g.q(r.i_from_ka), g.q(r.i_to_ka), o.lterm)
            o.loading = [None if math.isinf(r.loading_percent) else float(r.loading_percent), float(r.i_ka)]
        elif o.kind == "trafo" and o.active:
            r = net.res_trafo.iloc[o.idx]
            shv, slv = math.hypot(r.p_hv_mw, r.q_hv_mvar), math.hypot(r.p_lv_mw, r.q_lv_mvar)
            extra = "run_trafo_loading %s %s %s %s %s %s %s" % (cq.b(d["opt"]["trafo_loading"] == "current"), g.q(r.i_hv_ka), g.q(r.i_lv_ka),
                                                              g.q(shv), g.q(slv), g.q(g.SQRT3), o.tterm)
            o.loading = float(r.loading_percent)
        elif o.kind == "trafo3w" and o.blk == 0 and o.active:
            r = net.res_trafo3w.iloc[o.idx]
            ss = [math.hypot(r.p_hv_mw, r.q_hv_mvar), math.hypot(r.p_mv_mw, r.q_mv_mvar), math.hypot(r.p_lv_mw, r.q_lv_mvar)]
            extra = "run_trafo3w_loading %s %s %s %s %s" % (cq.b(d["opt"]["trafo_loading"] == "current"),
                                                            g.triple([r.i_hv_ka, r.i_mv_ka, r.i_lv_ka]), g.triple(ss), g.q(g.SQRT3), g.t3_term(o.el))
            o.loading = float(r.loading_percent)
        else:
            o.loading = "none"
        terms.append("OL [%s; %s]" % (o.term, extra))
        pend.append(("ac", d, o, net_tables(net, o)))
        ctx.count("branch_" + o.kind)
    # three-winding transformer as a whole: rows -> stamps -> flows -> _get_trafo3w_results (model t3_results, theorems
    # C02_t3_results_star / C02_t3_losses_star); hypothesis of the loss theorem: Kirchhoff's current law at the star point
    for i, w in enumerate(d["t3"]):
        blks = sorted([o for o in obs if o.kind == "trafo3w" and o.idx == i], key=lambda o: o.blk)
        if len(blks) != 3 or not all(o.active for o in blks):
            continue
        oh, om, ol = blks
        r = net.res_trafo3w.iloc[i]
        terms.append("OL [run_t3_res %s %s %s %s %s %s %s %s %s %s %s]" % (
            oh.rowterm, om.rowterm, ol.rowterm, g.cplx(oh.e), g.cplx(om.e), g.cplx(ol.e), g.cplx(oh.vf), g.cplx(oh.vt), g.cplx(om.vt),
            g.cplx(ol.vt), g.q(float(net.sn_mva))))
        pend.append(("t3res", d, i, [float(x) for x in (r.p_hv_mw, r.q_hv_mvar, r.p_mv_mw, r.q_mv_mvar, r.p_lv_mw, r.q_lv_mvar, r.pl_mw, r.ql_mvar)]))
        ctx.count("t3_results_loss_%s" % w["loss"])
        # documented pairwise short-circuit data on the impl's own ppc rows (independent of the model; conclusion of
        # C02_t3_star_pairwise): r/x of two star branches at nominal ratio add up to vkr resp. |.| = vk of the pair, relative
        # to the smaller rating.  Rows of a T-model block with a magnetising branch are pi-converted: skip those pairs
        lossblk = {"hv": 0, "mv": 1, "lv": 2}.get(w["loss"], 3)
        raw = lambda b: d["opt"]["trafo_model"] == "pi" or b != lossblk or (w["pfe"] == 0 and w["i0"] == 0)
        sn_, s_ = float(net.sn_mva), w["sn"]
        for (a, b, k) in ((0, 1, 0), (1, 2, 1), (0, 2, 2)):
            if not (raw(a) and raw(b)):
                continue
            smin = min(s_[a], s_[b])
            R = blks[a].row[0] / blks[a].c_off + blks[b].row[0] / blks[b].c_off
            X = blks[a].row[1] / blks[a].c_off + blks[b].row[1] / blks[b].c_off
            Rdoc, Zdoc = w["vkr"][k] / 100 * sn_ / smin, w["vk"][k] / 100 * sn_ / smin
            ctx.count("t3_pairwise_checked")
            if not g.close(R, Rdoc, 1e-9) or X < 0 or not g.close(math.hypot(R, X), Zdoc, 1e-9):
                ctx.violation("spec", "trafo3w[%d]: star branches %d+%d give r=%.10g |z|=%.10g, documented pairwise short-circuit data "
                              "vkr/100*sn/min(sn) = %.10g, vk/100*sn/min(sn) = %.10g" % (i, a, b, R, math.hypot(R, X), Rdoc, Zdoc), d)
        star_sum = oh.flows[1] + om.flows[0] + ol.flows[0]
        if w["loss"] != "star":
            if abs(star_sum) > 1e-6:
                ctx.disagreement("trafo3w[%d]: flows at the star point add up to %r (hypothesis of C02_t3_losses_star: zero injection at the "
                                 "auxiliary bus)" % (i, star_sum), d)
            ctx.count("t3_star_kcl_checked")
    ctx.count("tmodel_" + d["opt"]["trafo_model"])
    for t in d["t2"]:
        ctx.count("tap_%s_%s" % (t["tap"]["type"], t["tap"]["side"]))
        if t.get("tap2"):
            ctx.count("tap2_%s" % t["tap2"]["type"])
    for im in d["imp"]:
        ctx.count("imp_asym_r%d_x%d_g%d_b%d" % (im["rft"] != im["rtf"], im["xft"] != im["xtf"], im["gf"] != im["gt"], im["bf"] != im["bt"]))
    for w in d["t3"]:
        ctx.count("t3_star_%s" % w["star"])
    if g.star_nan_defect(d):
        ctx.count("t3_star_tap_nan_degree(old defect guard)")
    spec_oracle(ctx, d, net)
    if ctx.rng.random() < 0.5:
        dc_oracle(ctx, d, terms, pend)


def net_tables(net, o):
    """result-table values of the branch (p/q/i) in the order flows-from, flows-to, i-from, i-to"""
    if not o.active:
        return None
    if o.kind == "line":
        r = net.res_line.iloc[o.idx]
        return [r.p_from_mw, r.q_from_mvar, r.p_to_mw, r.q_to_mvar, r.i_from_ka, r.i_to_ka, r.pl_mw, r.ql_mvar]
    if o.kind == "trafo":
        r = net.res_trafo.iloc[o.idx]
        return [r.p_hv_mw, r.q_hv_mvar, r.p_lv_mw, r.q_lv_mvar, r.i_hv_ka, r.i_lv_ka, r.pl_mw, r.ql_mvar]
    if o.kind == "impedance":
        r = net.res_impedance.iloc[o.idx]
        return [r.p_from_mw, r.q_from_mvar, r.p_to_mw, r.q_to_mvar, r.i_from_ka, r.i_to_ka, r.pl_mw, r.ql_mvar]
    if o.kind == "trafo3w":
        r = net.res_trafo3w.iloc[o.idx]
        if o.blk == 0:
            return [r.p_hv_mw, r.q_hv_mvar, None, None, r.i_hv_ka, None, None, None]
        if o.blk == 1:
            return [None, None, r.p_mv_mw, r.q_mv_mvar, None, r.i_mv_ka, None, None]
        return [None, None, r.p_lv_mw, r.q_lv_mvar, None, r.i_lv_ka, None, None]
    return None


def _compare(ctx, pend, model):
    maxres = 0.0
    for item, mod in zip(pend, model):
        ctx.corr_checked += 1
        if item[0] == "dc":
            _, d, k, impl = item
            m = g.fl(mod[0])
            if isinstance(m, cq.Err) or not g.close(impl, m, 1e-9, 1e-9):
                ctx.disagreement("DC flow of ppc branch %d: impl=%s model=%s" % (k, impl, m), d)
            continue
        if item[0] == "t3res":
            _, d, i, impl = item
            m = mod[0]
            if isinstance(m, cq.Err):
                ctx.disagreement("trafo3w[%d] result columns: model raises %s, impl reports %s" % (i, m, impl), d)
                continue
            m = [x for pair in g.fl(m) for x in pair]
            if not g.close(impl, m, 1e-8, 1e-9):
                names = ["p_hv", "q_hv", "p_mv", "q_mv", "p_lv", "q_lv", "pl", "ql"]
                diff = ["%s impl=%.10g model=%.10g" % (n, a, b_) for n, a, b_ in zip(names, impl, m) if not g.close(a, b_, 1e-8, 1e-9)]
                ctx.disagreement("trafo3w[%d] result columns (t3_results): %s" % (i, "; ".join(diff)), d)
            continue
        _, d, o, tab = item
        m, extra = mod[0], mod[1]
        where = "%s[%d]%s" % (o.kind, o.idx, (" block %d" % o.blk) if o.kind == "trafo3w" else "")
        if isinstance(m, cq.Err):
            ctx.disagreement("%s: model raises %s, impl built the row %s" % (where, m, o.row), d)
            continue
        row, resid, res = g.fl(m[0]), g.fl(m[1]), m[2]
        if not g.close(o.row, row, 1e-9):
            names = ["BR_R", "BR_X", "BR_G", "BR_B", "BR_R_ASYM", "BR_X_ASYM", "BR_G_ASYM", "BR_B_ASYM", "TAP", "SHIFT", "BR_STATUS", "RATE_A"]
            diff = ["%s impl=%r model=%r" % (n, a, b_) for n, a, b_ in zip(names, o.row, row) if not g.close(a, b_, 1e-9)]
            ctx.disagreement("%s branch row: %s" % (where, "; ".join(diff)), d)
            continue
        for r in resid:
            maxres = max(maxres, abs(r))
            if abs(r) > 1e-6:
                ctx.disagreement("%s: oracle residual %.3g (hypothesis of the theorems not met by the harness oracle)" % (where, r), d)
        if not o.active:
            continue
        if isinstance(res, cq.Err) or res is None:
            ctx.disagreement("%s: model result %r for an active branch" % (where, res), d)
            continue
        res = g.fl(res)
        stamps, flows, ii, rr = res
        if not o.selfloop and not g.close([g.c2(z) for z in o.stamps], stamps, 1e-9):
            ctx.disagreement("%s Yf/Yt stamps: impl=%s model=%s" % (where, [g.c2(z) for z in o.stamps], stamps), d)
            continue
        if not g.close([g.c2(z) for z in o.flows], flows, 1e-8, 1e-9):
            ctx.disagreement("%s flows PF QF PT QT: impl=%s model=%s" % (where, [g.c2(z) for z in o.flows], flows), d)
            continue
        for r in rr:
            maxres = max(maxres, abs(r))
            if abs(r) > 1e-6:
                ctx.disagreement("%s: |S|/|V|/e oracle residual %.3g" % (where, r), d)
        if tab is not None:
            exp = [flows[0][0], flows[0][1], flows[1][0], flows[1][1], ii[0], ii[1], flows[0][0] + flows[1][0], flows[0][1] + flows[1][1]]
            for nm, a, b_ in zip(["p_from", "q_from", "p_to", "q_to", "i_from", "i_to", "pl", "ql"], tab, exp):
                if a is not None and not g.close(float(a), b_, 1e-8, 1e-9):
                    ctx.disagreement("%s result table %s: impl=%.10g model=%.10g" % (where, nm, float(a), b_), d)
                    break
        if o.loading != "none":
            if not g.close(o.loading, g.fl(extra), 1e-9):
                ctx.disagreement("%s loading/i_ka: impl=%s model=%s" % (where, o.loading, g.fl(extra)), d)
    ctx.extra["max_oracle_residual"] = maxres


def run(ctx):
    rng = ctx.rng
    terms, pend = [], []
    for f in sorted(glob.glob(os.path.join(cq.VERIF, "corpus", "C02", "*.json"))):
        _one(ctx, json.load(open(f))["desc"], terms, pend, sample=True)
        ctx.count("corpus")
    for k in range(ctx.n(70, 1500)):
        _one(ctx, g.gen_desc(rng, passive=False), terms, pend, sample=(k < 2))
    model = ctx.coq_eval("c02", "Base.QN Base.QC C31.Model C02.Model C02.Run C02.Model3w C02.Run3w", terms, shard=25, timeout=900)
    _compare(ctx, pend, model)


def replay(ctx, rec):
    terms, pend = [], []
    _one(ctx, rec["case"], terms, pend, sample=True)
    model = ctx.coq_eval("c02", "Base.QN Base.QC C31.Model C02.Model C02.Run C02.Model3w C02.Run3w", terms, shard=25, timeout=900)
    _compare(ctx, pend, model)
