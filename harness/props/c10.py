"""C10 — distributed slack.
Correspondence: (a) SL_FAC_BUS written by _normalise_slack_weights (and its exceptions) vs C10.Model.normalise_net, whose island
list is computed by the model from the ppc branch rows / bus types (the island list of _subnetworks is compared as well);
(b) gen rows / bus PD after pfsoln with the widened reference sets vs C10.Model.run_ds_gens (C01 split model);
(c) res_xward.p_mw (distributed-slack extraction) vs C10.Model.xward_p.
Oracle: deviation/weight equal for all participating ext_grids, gens and xwards, non-participants keep setpoints,
nodal balance at the buses of participants."""
import json, math, hashlib
import numpy as np
import pandapower as pp
from fractions import Fraction
from vf import coqrun as cq, c01_pf as pf
from pandapower.pypower.idx_bus import PD, VM, VA, BUS_I, BUS_TYPE, SL_FAC as SL_FAC_BUS
from pandapower.pypower.idx_gen import PG, GEN_BUS, SL_FAC
from pandapower.pypower.idx_brch import F_BUS, T_BUS, PF, BR_STATUS

RULE = ("C01-style nets (2-8 buses, fused sections, second ext_grid) with 1-4 gens (shared buses), 0-2 xwards, slack weights "
        "on a 1/8 grid (30 % zero) over ext_grids, gens and xwards, loads/sgens/storages/shunts/wards on shared buses (ZIP loads in 25 %), "
        "distributed_slack=True; ~6 % malformed (all weights zero, negative sum, two xwards on one bus); 1 in 8 nets split by an "
        "out-of-service line (second island with / without its own reference bus and participants, isolated buses), 1 in 12 nets with an "
        "ext_grid on every bus (all reference buses; half of them re-run without distributed slack = solver bypass of powerflow.py:158); "
        "non-trivial = at least 2 participants with different weights")
ASSUMPTIONS = [
    "Newton solver is an oracle: |V| and V*conj(Ybus V) are inputs (30 bits); the slack variable itself is not observed, the ratio law is evaluated on the result tables",
    "the bypass of the solver (every bus a reference bus) only exists without distributed slack (powerflow.py:158); it is exercised on the same nets and compared with the un-widened pfsoln model, the ratio law does not apply there",
    "xward internal branch flow (branch side) and pz*vm^2 are subtracted from res_xward.p_mw before comparing with the extraction model",
]
TRUSTED = ["python re-implementation of the C01 guards G01p/G01q (balance at ZIP buses is left to C01), see vf/c01_pf.py"]
TOL = 2e-6


def _gen_case(rng, force_pair=False, variant=None):
    net = pf.gen_net(rng, rich=rng.choice([0.5, 0.8]), n_gen=0, two_eg_p=0.25, allow_xward=False,
                     zip_p=0.25 if rng.random() < 0.3 else 0.0)
    buses = [int(b) for b in net.bus.index[net.bus.vn_kv == 20.0]]
    hot = rng.sample(buses, min(len(buses), 2))
    vmb = {int(net.ext_grid.bus.values[0]): float(net.ext_grid.vm_pu.values[0])}
    W = [0.0, 0.0, 0.125, 0.5, 1.0, 1.0, 2.0, 0.375]
    net.ext_grid["slack_weight"] = [rng.choice(W[1:]) for _ in net.ext_grid.index]
    for _ in range(rng.randint(1, 4)):
        b = rng.choice(hot) if rng.random() < 0.5 else rng.choice(buses + [int(net.ext_grid.bus.values[0])])
        vm = vmb.setdefault(int(b), rng.choice([1.0, 1.01, 1.02, 0.99]))
        kw = {}
        if rng.random() < 0.5:
            lo = pf.g8(rng, -16, 0)
            kw = dict(min_q_mvar=lo, max_q_mvar=lo + pf.g8(rng, 0, 16))
        pp.create_gen(net, b, p_mw=pf.g8(rng, 0, 16), vm_pu=vm, scaling=rng.choice([1.0, 1.0, 0.5]),
                      in_service=rng.random() < 0.9, slack_weight=rng.choice(W), **kw)
    # several reference buses: further ext_grids / slack gens on other buses (newtonpf keeps ref[0], turns ref[1:] into PV)
    if rng.random() < 0.4:
        cand = [b for b in buses if b not in vmb]
        rng.shuffle(cand)
        for b in cand[:rng.randint(1, 3)]:
            vm = vmb.setdefault(int(b), rng.choice([1.0, 1.01, 1.02]))
            if rng.random() < 0.6:
                pp.create_ext_grid(net, b, vm_pu=vm, va_degree=float(net.ext_grid.va_degree.values[0]), slack_weight=rng.choice(W[1:]))
            else:
                pp.create_gen(net, b, p_mw=pf.g8(rng, 0, 16), vm_pu=vm, slack=True, slack_weight=rng.choice(W))
    if variant in ("allref", "bypass"):
        # every bus a reference bus: under distributed slack newtonpf keeps ref[0] and turns the others into PV buses; without
        # distributed slack the solver is bypassed
        rep = {int(e): int(b_) for b_, e, et, cl in zip(net.switch.bus.values, net.switch.element.values, net.switch.et.values, net.switch.closed.values)
               if et == "b" and cl}
        vab = {}
        for e_b, e_va, e_vm in zip(net.ext_grid.bus.values, net.ext_grid.va_degree.values, net.ext_grid.vm_pu.values):
            vab[rep.get(int(e_b), int(e_b))] = float(e_va); vab[int(e_b)] = float(e_va)
            vmb.setdefault(rep.get(int(e_b), int(e_b)), float(e_vm))
        for b_, k_ in rep.items():
            if b_ in vmb:
                vmb.setdefault(k_, vmb[b_])
        for b in [int(b) for b in net.bus.index]:
            if b not in set(int(e) for e in net.ext_grid.bus.values):
                k_ = rep.get(b, b)
                vm = vmb.get(b, vmb.get(k_))
                if vm is None:
                    vm = rng.choice([1.0, 1.01, 1.02, 0.99])
                vmb[b] = vm; vmb.setdefault(k_, vm)
                va = vab.setdefault(k_, float(net.ext_grid.va_degree.values[0]) + rng.choice([0.0, 0.0, 0.5, -0.25]))
                pp.create_ext_grid(net, b, vm_pu=vm, va_degree=va, slack_weight=rng.choice(W[1:]))
    nx = rng.choice([0, 0, 1, 1, 2]) if variant not in ("allref", "bypass") else 0
    gen_buses = set(int(b) for b in net.gen.bus.values) | set(int(b) for b in net.ext_grid.bus.values)
    free = [b for b in buses if b not in gen_buses]
    rng.shuffle(free)
    same = rng.random() < 0.04
    for j in range(nx):
        if not free:
            break
        b = free[0] if (same and j > 0) else free.pop()
        if same and j == 0:
            free.insert(0, b)
        pp.create_xward(net, b, ps_mw=pf.g8(rng, -4, 8), qs_mvar=pf.g8(rng, -4, 4), pz_mw=pf.g8(rng, 0, 8), qz_mvar=pf.g8(rng, -4, 4),
                        r_ohm=pf.g8(rng, 1, 16), x_ohm=pf.g8(rng, 4, 40), vm_pu=rng.choice([1.0, 0.99, 1.01]),
                        in_service=rng.random() < 0.9, slack_weight=rng.choice(W))
    # fixed fraction of the nets: several xwards on ONE bus with mixed in_service flags, all with non-zero weights
    # (an out-of-service xward must neither take a share nor disturb the shares of the in-service ones)
    if force_pair and free:
        b = free.pop()
        flags = [True, False] + [rng.random() < 0.5 for _ in range(rng.randint(0, 1))]
        rng.shuffle(flags)
        for ins in flags:
            pp.create_xward(net, b, ps_mw=pf.g8(rng, -4, 8), qs_mvar=pf.g8(rng, -4, 4), pz_mw=pf.g8(rng, 0, 8), qz_mvar=pf.g8(rng, -4, 4),
                            r_ohm=pf.g8(rng, 1, 16), x_ohm=pf.g8(rng, 4, 40), vm_pu=1.0, in_service=ins,
                            slack_weight=rng.choice([0.125, 0.5, 1.0, 2.0]))
    if variant == "islands" and len(net.line):
        # split the net: one line out of service; the cut-off part gets its own reference bus (ext_grid / slack gen) or none
        import pandapower.topology as top
        uns = []
        for _ in range(4):
            li = rng.choice(list(net.line.index))
            net.line.at[li, "in_service"] = False
            uns = sorted(int(b) for b in top.unsupplied_buses(net) if int(b) in buses)
            if uns:
                break
            net.line.at[li, "in_service"] = True
        if uns and rng.random() < 0.75:
            b = rng.choice(uns)
            vm = vmb.setdefault(int(b), rng.choice([1.0, 1.01, 1.02]))
            if rng.random() < 0.6:
                pp.create_ext_grid(net, b, vm_pu=vm, va_degree=float(net.ext_grid.va_degree.values[0]), slack_weight=rng.choice(W))
            else:
                pp.create_gen(net, b, p_mw=pf.g8(rng, 0, 16), vm_pu=vm, slack=True, slack_weight=rng.choice(W))
    r = rng.random() if not (force_pair or variant) else 1.0
    if r < 0.02:
        net.ext_grid["slack_weight"] = 0.0; net.gen["slack_weight"] = 0.0
        if len(net.xward):
            net.xward["slack_weight"] = 0.0
    elif r < 0.04:
        net.ext_grid["slack_weight"] = -1.0
    opts = {"numba": False, "distributed_slack": variant != "bypass", "voltage_depend_loads": rng.random() < 0.7}
    if variant in ("allref", "bypass"):
        opts["calculate_voltage_angles"] = True
    if force_pair == "ls2g":
        opts["voltage_depend_loads"] = False   # lightsim2grid is only picked without ZIP loads
        net.load["const_z_p_percent"] = 0.0; net.load["const_i_p_percent"] = 0.0
        net.load["const_z_q_percent"] = 0.0; net.load["const_i_q_percent"] = 0.0
    elif force_pair or rng.random() < 0.6:
        opts["lightsim2grid"] = False        # pandapower's own newtonpf; otherwise lightsim2grid is picked automatically when possible
    if rng.random() < 0.25:
        opts["enforce_q_lims"] = True        # q-limit loop around the distributed slack power flow (xward slack share must survive)
        opts["voltage_depend_loads"] = False   # limited gens folded into a ZIP bus demand are C01's recorded finding C01-qlim-zip
        if rng.random() < 0.6 and len(buses):
            pp.create_load(net, rng.choice(buses), p_mw=pf.g8(rng, 0, 8), q_mvar=rng.choice([-1, 1]) * pf.g8(rng, 8, 40))
    return net, opts


class _NormSpy:
    """records the inputs and the outcome of build_gen._normalise_slack_weights at the call boundary
    (the ppc is renumbered in place later, so it cannot be reconstructed after the run)"""

    def __init__(self, net):
        import pandapower.build_gen as BG
        from pandapower.auxiliary import _subnetworks
        self.BG, self.orig, self.rec, self.net = BG, BG._normalise_slack_weights, None, net
        spy = self

        def wrapped(ppc, gen_mask, xward_mask, xward_pq_buses):
            # _gen_xward_mask: GEN_BUS against the ppc numbers of the auxiliary xward buses (bus lookup at build time)
            aux = np.asarray(net._pd2ppc_lookups.get("aux", {}).get("xward", []), dtype=np.int64)
            auxs = set(int(a) for a in net._pd2ppc_lookups["bus"][aux])
            gens = [(int(ppc["gen"][r, GEN_BUS]), float(ppc["gen"][r, SL_FAC]), int(ppc["gen"][r, GEN_BUS]) in auxs)
                    for r in range(ppc["gen"].shape[0])]
            xws = []
            ft = net._pd2ppc_lookups.get("branch", {}).get("xward", [])
            if len(ft):
                f, t = ft
                for r in range(f, t):
                    pq = int(ppc["branch"][r, F_BUS].real); pv = int(ppc["branch"][r, T_BUS].real)
                    xws.append((pq, bool(ppc["bus"][pv, BUS_TYPE] != 4)))
            subs = [[int(b_) for b_ in s] for s in _subnetworks(ppc)]
            brs = [(int(ppc["branch"][r, F_BUS].real), int(ppc["branch"][r, T_BUS].real), bool(ppc["branch"][r, BR_STATUS].real != 0))
                   for r in range(ppc["branch"].shape[0])]
            bt = [int(ppc["bus"][k, BUS_TYPE]) for k in range(ppc["bus"].shape[0])]
            rec = dict(gens=gens, xws=xws, subs=subs, nb=ppc["bus"].shape[0], brs=brs, bt=bt,
                       bus_i_is_row=bool(np.all(ppc["bus"][:, BUS_I] == np.arange(ppc["bus"].shape[0]))),
                       masks_agree=[bool(m) for m in xward_mask] == [g_[2] for g_ in gens])
            spy.rec = rec
            try:
                out = spy.orig(ppc, gen_mask, xward_mask, xward_pq_buses)
                rec["out"] = [float(v) for v in ppc["bus"][:, SL_FAC_BUS]]
                return out
            except Exception as e:
                rec["out"] = cq.Err(type(e).__name__)
                raise

        self.wrapped = wrapped

    def __enter__(self):
        self.BG._normalise_slack_weights = self.wrapped
        return self

    def __exit__(self, *a):
        self.BG._normalise_slack_weights = self.orig
        return False


def _norm_term(gens, xws, brs, bt):
    return "run_normalise_net %s %s %s %s" % (
        cq.lst(["(mkW %s %s %s)" % (cq.nat(b), cq.q(w), cq.b(x)) for b, w, x in gens]),
        cq.lst(["(mkXb %s %s)" % (cq.nat(p), cq.b(o)) for p, o in xws]),
        cq.lst(["(mkPbr %s %s %s)" % (cq.nat(f), cq.nat(t), cq.b(o)) for f, t, o in brs]),
        cq.lst([cq.nat(t) for t in bt]))


def _xward_inputs(net):
    lookup = net._pd2ppc_lookups["bus"]
    ise = net._is_elements
    xws = [dict(idx=int(i), pbus=int(net.xward.bus.values[p]), k=int(lookup[int(net.xward.bus.values[p])]), ps=float(net.xward.ps_mw.values[p]),
                w=float(net.xward.slack_weight.values[p]), ins=bool(net.xward.in_service.values[p]), on=bool(ise["xward"][p]),
                pz=float(net.xward.pz_mw.values[p])) for p, i in enumerate(net.xward.index)]
    others = []
    for tab, col in (("sgen", "p_mw"), ("load", "p_mw"), ("ward", "ps_mw"), ("storage", "p_mw")):
        t = net[tab]
        for p in range(len(t)):
            others.append((int(t.bus.values[p]), float(t[col].values[p]), bool(t.in_service.values[p])))
    return xws, others


def _py_G10x(x, xws, others):
    if len(xws) != 1:
        return False
    r = xws[0]
    if not (r["ins"] and r["on"] and r["w"] > 0):
        return False
    raw = sum((Fraction(p) for b, p, ins in others if ins and b == r["pbus"]), Fraction(0)) + Fraction(r["ps"])
    k = r["k"]
    pd = sum((Fraction(d["p"]) * (1 if d["on"] else 0) * Fraction(d["sc"]) for d in x.loads if d["bus"] == k), Fraction(0))
    for d in x.pqs:
        if d["bus"] == k:
            pd += Fraction(cq.round_bits(Fraction(d["p"]), 40)) * (1 if d["on"] else 0) * Fraction(d["sc"]) * (-1 if d["gen"] else 1)
    return raw == pd


class _BypassSpy:
    """captures the ppci handed to / returned by powerflow._bypass_pf_and_set_results (nothing of it is kept in net._ppc["internal"])"""

    def __init__(self):
        import pandapower.powerflow as PFM
        self.PFM, self.orig, self.cap = PFM, PFM._bypass_pf_and_set_results, None
        spy = self

        def wrapped(ppci, options):
            from pandapower.pypower.makeYbus import makeYbus
            from pandapower.pf.ppci_variables import _get_pf_variables_from_ppci
            vars_ = _get_pf_variables_from_ppci(ppci)
            ref, ref_gens = vars_[8], vars_[-1]
            Ybus = makeYbus(ppci["baseMVA"], ppci["bus"], ppci["branch"])[0]
            out = spy.orig(ppci, options)
            V = out["bus"][:, VM] * np.exp(1j * np.deg2rad(out["bus"][:, VA]))
            spy.cap = dict(V=V, Ybus=Ybus, gen=out["gen"].copy(), bus=out["bus"].copy(), ref=np.array(ref), ref_gens=np.array(ref_gens))
            return out

        self.wrapped = wrapped

    def __enter__(self):
        self.PFM._bypass_pf_and_set_results = self.wrapped
        return self

    def __exit__(self, *a):
        self.PFM._bypass_pf_and_set_results = self.orig
        return False


def _one_bypass(ctx, net, opts, T, case, net_js):
    """all buses are reference buses and distributed_slack=False: the solver is bypassed, pfsoln runs on the setpoint voltages"""
    err = None
    with _BypassSpy() as spy:
        try:
            pp.runpp(net, **opts)
        except pp.LoadflowNotConverged:
            err = "not_converged"
        except Exception as e:
            err = "raise:" + type(e).__name__
    ctx.count("bypass_outcome_" + (err or "ok"))
    if err is not None or spy.cap is None:
        if err is None:
            ctx.count("bypass_not_taken_net_has_non_reference_buses")
        ctx.case({"net_sha": hashlib.sha1(net_js.encode()).hexdigest(), "opts": opts}, nontrivial=False)
        return
    ctx.count("pf_bypassed_only_reference_buses")
    I = net._ppc["internal"]
    for k_ in ("V", "Ybus", "gen", "bus", "ref", "ref_gens"):
        I[k_] = spy.cap[k_]
    x = pf.extract(net)
    pf.impl_res(net, x)
    g, busr = spy.cap["gen"], spy.cap["bus"]
    T["byp_t"].append("run_plain_gens %s %s %s %s %s" % (pf.net_term(x), pf.ref_term(x), pf.vs_term(x), pf.ss_term(x), cq.nat(x.nb)))
    T["byp_p"].append(([float(v) for v in g[:, PG]], [float(busr[k, PD]) for k in range(x.nb)], case))
    # oracle: every ext_grid bus sits at its setpoint, gens keep p_mw*scaling, nodal balance on the result tables
    keep_bad = []
    for p_, i in enumerate(net.ext_grid.index):
        if net._is_elements["ext_grid"][p_]:
            b = int(net.ext_grid.bus.values[p_])
            if abs(float(net.res_bus.vm_pu.at[b]) - float(net.ext_grid.vm_pu.values[p_])) > 1e-9:
                keep_bad.append("bypass: ext_grid %d bus voltage %r differs from the setpoint %r" % (i, float(net.res_bus.vm_pu.at[b]), float(net.ext_grid.vm_pu.values[p_])))
    for p_, i in enumerate(net.gen.index):
        if net._is_elements["gen"][p_] and not bool(net.gen.slack.values[p_]):
            d = float(net.res_gen.p_mw.at[i]) - float(net.gen.p_mw.values[p_] * net.gen.scaling.values[p_])
            if abs(d) > 1e-7:
                keep_bad.append("bypass: gen %d deviates from its setpoint by %.6g MW" % (i, d))
    E = pf.element_sums_by_bus(net, x)
    F = pf.branch_flows_by_bus(net, x)
    bal = []
    for k in range(x.nb):
        if k in E or k in F:
            r_ = E.get(k, 0j) + F.get(k, 0j)
            if abs(r_.real) > TOL or abs(r_.imag) > 2 * TOL:
                bal.append((k, r_))
    T["orc"].append((x, [], [], keep_bad, [], [], case, bal))
    ctx.case({"net_sha": hashlib.sha1(net_js.encode()).hexdigest(), "opts": opts}, nontrivial=len(net.ext_grid) >= 2)


def _one(ctx, rng, T, given=None, sample=False, force_pair=False, variant=None):
    net, opts = _gen_case(rng, force_pair, variant) if given is None else given
    if force_pair:
        ctx.count("mixed_in_service_xwards_on_one_bus")
    if variant:
        ctx.count("variant_" + variant)
    net_js = pp.to_json(net)
    case = {"net": net_js, "opts": opts}
    if not opts.get("distributed_slack", True):
        return _one_bypass(ctx, net, opts, T, case, net_js)
    err = None
    # success flag of every Newton pass (the q-limit loop of enforce_q_lims runs several)
    import pandapower.pf.run_newton_raphson_pf as RNR
    passes = []
    orig_pass = RNR._run_ac_pf_without_qlims_enforced

    def spy_pass(ppci, options):
        out = orig_pass(ppci, options)
        passes.append(bool(out[1]))
        return out

    RNR._run_ac_pf_without_qlims_enforced = spy_pass
    with _NormSpy(net) as spy:
        try:
            pp.runpp(net, **opts)
        except pp.LoadflowNotConverged:
            err = "not_converged"
        except (NotImplementedError, ValueError, IndexError) as e:
            err = type(e).__name__
        except Exception as e:
            err = "raise:" + type(e).__name__
    RNR._run_ac_pf_without_qlims_enforced = orig_pass
    # guard of the recorded finding C10-qlim-unconverged-pass: enforce_q_lims and a pass before the last one did not converge
    unconv_pass = bool(opts.get("enforce_q_lims")) and len(passes) >= 2 and not all(passes[:-1])
    if unconv_pass and err is None:
        ctx.count("qlim_loop_continued_after_unconverged_pass")
    ctx.count("outcome_" + (err or "ok"))
    if spy.rec is not None:
        r = spy.rec
        T["norm_t"].append(_norm_term(r["gens"], r["xws"], r["brs"], r["bt"]))
        T["norm_p"].append((r["out"], [sorted(s_) for s_ in r["subs"]], case))
        ctx.count("islands_%d" % min(len(r["subs"]), 3))
        if any(t_ == 4 for t_ in r["bt"]):
            ctx.count("ppc_has_out_of_service_buses")
        if not r["bus_i_is_row"]:
            ctx.count("ppc_BUS_I_differs_from_row_number")
        if not r["masks_agree"]:
            ctx.count("xward_mask_recomputed_differs")
    if err is not None:
        if spy.rec is not None:
            ctx.case({"net_sha": hashlib.sha1(net_js.encode()).hexdigest()}, nontrivial=False)
        return
    if err is None and "V" not in net._ppc["internal"]:
        # powerflow.py:158 excludes the bypass under distributed slack: never expected here
        ctx.violation("spec", "distributed slack power flow returned without a solved voltage vector (solver bypassed)", case)
        return
    if variant == "allref":
        ctx.count("all_reference_buses_solver_not_bypassed")
    # observations of the solved net first (_pd2ppc below rebuilds net._ppc)
    if err is None:
        x = pf.extract(net)
        pf.impl_res(net, x)
        g = net._ppc["internal"]["gen"].copy()
        busr = net._ppc["bus"].copy()
        bw_i = [float(net._ppc["internal"]["bus"][k, SL_FAC_BUS]) for k in range(x.nb)]
    gens = spy.rec["gens"] if spy.rec is not None else []
    impl_bw = [float(v) for v in busr[:, SL_FAC_BUS]]
    parts = sorted(set(w for _, w, _ in gens if w != 0))
    nontriv = len(parts) >= 2
    ctx.count("participants_%d" % min(sum(1 for _, w, _ in gens if w != 0), 6))
    ctx.count("xwards_%d" % len(net.xward))
    if opts.get("enforce_q_lims"):
        lim = 0
        if "min_q_mvar" in net.gen:
            lim = int(sum(1 for j in net.gen.index if net.gen.in_service.at[j] and (abs(net.res_gen.q_mvar.at[j] - net.gen.max_q_mvar.at[j]) < 1e-6 or abs(net.res_gen.q_mvar.at[j] - net.gen.min_q_mvar.at[j]) < 1e-6)))
        ctx.count("enforce_q_lims_gens_at_limit_%d" % min(lim, 3))
    ctx.count("solver_%s" % ("lightsim2grid" if net._options.get("lightsim2grid") else "newtonpf"))
    ctx.count("reference_buses_%d" % min(len(set(int(b) for b in net._ppc["internal"]["ref"])) if "ref" in net._ppc["internal"] else 0, 4))
    # (b) gen rows after pfsoln with widened reference sets
    T["gen_t"].append("run_ds_gens %s %s %s %s %s %s" % (pf.net_term(x), pf.ref_term(x), cq.lst([cq.q(v) for v in bw_i]), pf.vs_term(x), pf.ss_term(x), cq.nat(x.nb)))
    T["gen_p"].append(([float(v) for v in g[:, PG]], [float(busr[k, PD]) for k in range(x.nb)], case))
    # (c) xward extraction
    xws, others = _xward_inputs(net)
    lookup = x.lookup
    if xws:
        vm = {r["idx"]: float(net.res_bus.vm_pu.at[r["pbus"]]) for r in xws}
        impl_x = []
        for r in xws:
            p = float(net.res_xward.p_mw.at[r["idx"]])
            v = vm[r["idx"]]
            v = 0.0 if math.isnan(v) else v
            br = x.xw_branch.get(r["idx"], (0.0, 0.0))[0]
            br = 0.0 if math.isnan(br) else br
            impl_x.append(None if math.isnan(p) else p - v * v * r["pz"] * r["on"] - br)
        pdcol = [float(busr[k, PD]) for k in range(busr.shape[0])]
        T["xw_t"].append("run_xward %s %s %s %s" % (
            pf.net_term(x), pf.vs_term(x), cq.lst([cq.q(v, 40) for v in pdcol]),
            cq.lst(["(mkXw %s %s %s %s %s %s)" % (cq.nat(r["pbus"]), cq.nat(r["k"]), cq.q(r["ps"]), cq.q(r["w"]), cq.b(r["ins"]), cq.b(r["on"])) for r in xws])))
        T["xw_p"].append((impl_x, case))
    # ---- oracle: ratio law on the result tables
    ise = net._is_elements
    ratios = []    # (label, ratio, ppc bus)
    keep_bad = []
    for p_, i in enumerate(net.ext_grid.index):
        if not ise["ext_grid"][p_]:
            continue
        w = float(net.ext_grid.slack_weight.values[p_]); d = float(net.res_ext_grid.p_mw.at[i])
        if w != 0:
            ratios.append(("ext_grid %d" % i, d / w, int(lookup[int(net.ext_grid.bus.values[p_])])))
    for p_, i in enumerate(net.gen.index):
        if not ise["gen"][p_]:
            continue
        w = float(net.gen.slack_weight.values[p_])
        d = float(net.res_gen.p_mw.at[i]) - float(net.gen.p_mw.values[p_] * net.gen.scaling.values[p_])
        if w != 0:
            ratios.append(("gen %d" % i, d / w, int(lookup[int(net.gen.bus.values[p_])])))
        elif abs(d) > 1e-7 and not bool(net.gen.slack.values[p_]):
            keep_bad.append("non-participating gen %d deviates from its setpoint by %.6g MW" % (i, d))
    xr = []
    for r, ix in zip(xws, impl_x if xws else []):
        if r["on"] and r["w"] != 0 and ix is not None:
            xr.append(("xward %d" % r["idx"], -(ix - r["ps"]) / r["w"], r["k"]))
        elif r["on"] and r["w"] == 0 and ix is not None and abs(ix - r["ps"]) > 1e-7:
            keep_bad.append("non-participating xward %d deviates from its setpoint by %.6g MW" % (r["idx"], ix - r["ps"]))
        elif r["on"] and ix is None:
            keep_bad.append("xward %d: res_xward.p_mw is NaN" % r["idx"])
        elif not r["on"] and (ix is None or abs(ix) > 1e-7):
            keep_bad.append("xward %d is out of service but reports p_mw = %r" % (r["idx"], ix))
    # nodal balance on the result tables (the ZIP defects of C01 are that property's findings and are left to it)
    E = pf.element_sums_by_bus(net, x)
    F = pf.branch_flows_by_bus(net, x)
    bal = []
    for k in range(x.nb):
        if k in E or k in F:
            r_ = E.get(k, 0j) + F.get(k, 0j)
            if abs(r_.real) > TOL or abs(r_.imag) > 2 * TOL:
                bal.append((k, r_))
    # the property quantifies over positive weights: a negative weight that the implementation accepts (positive island
    # sum) is outside its domain (the theorem C10_gen_share needs 0 < weight sum at a shared bus)
    allw = [float(v) for v in net.ext_grid.slack_weight.values] + [float(v) for v in net.gen.slack_weight.values] + \
           [float(v) for v in net.xward.slack_weight.values]
    if any(w < 0 for w in allw):
        ctx.count("negative_weight_accepted_ratio_law_not_applied")
        ratios, xr, keep_bad = [], [], []
    x.unconv_pass = unconv_pass
    T["orc"].append((x, ratios, xr, keep_bad, xws, others, case, bal))
    ctx.case({"net_sha": hashlib.sha1(net_js.encode()).hexdigest(), "opts": opts}, nontrivial=nontriv,
             sample={"input": {"ext_grid_w": [float(v) for v in net.ext_grid.slack_weight.values], "gen_w": [float(v) for v in net.gen.slack_weight.values],
                               "xward_w": [float(v) for v in net.xward.slack_weight.values]},
                     "impl": {"SL_FAC_BUS": impl_bw[:8] if isinstance(impl_bw, list) else repr(impl_bw), "ratios": [(a, b) for a, b, _ in (ratios + xr)[:6]]}} if sample else None)


def _judge(ctx, T, gen_ok, xw_ok):
    for n_, (x, ratios, xr, keep_bad, xws, others, case, bal) in enumerate(T["orc"]):
        allr = ratios + xr
        if allr:
            refv = allr[0][1]
            for lab, r, k in allr[1:]:
                if abs(r - refv) > 1e-5 * max(1.0, abs(refv)):
                    if getattr(x, "unconv_pass", False):
                        # recorded finding: the q-limit loop went on after a pass that did not converge; the slack shares pfsoln
                        # derived from that unconverged state stay in gen PG for the next pass, which then converges around them
                        ctx.violation("C10-qlim-unconverged-pass", "%s: deviation/weight = %.8g, %s: %.8g (enforce_q_lims: an earlier pass of "
                                      "the q-limit loop did not converge)" % (lab, r, allr[0][0], refv), case)
                        ctx.count("known:C10-qlim-unconverged-pass")
                    else:
                        ctx.violation("spec", "%s: deviation/weight = %.8g, %s: %.8g" % (lab, r, allr[0][0], refv), case)
        for k, r_ in bal:
            g = pf.py_guards(x, k)
            if not all(g[:2]):
                ctx.count("balance_left_to_C01_guard_G01")     # ZIP averaging (C01-zip-average), that property's finding
            else:
                ctx.violation("spec", "nodal balance at ppc bus %d violated under distributed slack: %r MVA" % (k, r_), case)
        for w in keep_bad:
            ctx.violation("spec", w, case)


def _corpus():
    import glob, os
    out = []
    for f in sorted(glob.glob(os.path.join(cq.VERIF, "corpus", "C10", "*.json"))):
        rec = json.load(open(f))
        out.append((pp.from_json_string(rec["net"]), rec["opts"]))
    return out


def run(ctx, only=None):
    rng = ctx.rng
    T = {k: [] for k in ("norm_t", "norm_p", "gen_t", "gen_p", "xw_t", "xw_p", "orc", "byp_t", "byp_p")}
    idx_gen, idx_xw = [], []     # oracle index of each gen / xward comparison
    if only is None:
        def var(k):
            if k % 8 == 3:
                return "islands"
            if k % 12 == 5:
                return "allref" if k % 24 == 5 else "bypass"
            return None
        todo = [(g, False, False, None) for g in _corpus()] + \
               [(None, k < 2, (False if k % 6 else ("ls2g" if k % 12 else True)), var(k)) for k in range(ctx.n(100, 2500))]
    else:
        todo = [(g, True, False, None) for g in only]
    for given, sample, force_pair, variant in todo:
        n0, x0 = len(T["gen_t"]), len(T["xw_t"])
        _one(ctx, rng, T, given=given, sample=sample, force_pair=force_pair, variant=variant)
        if len(T["gen_t"]) > n0:
            idx_gen.append(len(T["orc"]) - 1)
        if len(T["xw_t"]) > x0:
            idx_xw.append(len(T["orc"]) - 1)
    req = "Base.QN Base.QC C01.Model C10.Model"
    nm = ctx.coq_eval("c10n", req, T["norm_t"], shard=25, timeout=900) if T["norm_t"] else []
    for (impl, isl_i, case), m in zip(T["norm_p"], nm):
        ctx.corr_checked += 1
        mres, g10w, isl_m, wf = m
        if not wf:
            ctx.disagreement("ppc branch rows point outside the bus table (wf_branches false)", case)
        if [list(i_) for i_ in isl_m] != isl_i:
            ctx.disagreement("_subnetworks: impl islands %r model %r" % (isl_i, isl_m), case)
        if not g10w:
            ctx.count("old_pairing_guard_G10w_false")
        if isinstance(impl, cq.Err) or isinstance(mres, cq.Err):
            if impl != mres:
                ctx.disagreement("_normalise_slack_weights: impl %r model %r" % (impl, mres), case)
            continue
        bad = ["bus %d SL_FAC impl %r model %s" % (k, a, float(b)) for k, (a, b) in enumerate(zip(impl, mres)) if not pf.close(b, a, 1e-9)]
        if bad:
            ctx.disagreement("_normalise_slack_weights: " + "; ".join(bad[:4]), case)
    gen_ok, xw_ok = {}, {}
    gm = ctx.coq_eval("c10g", req, T["gen_t"], shard=6, timeout=900) if T["gen_t"] else []
    for oi, (pg_i, pd_i, case), m in zip(idx_gen, T["gen_p"], gm):
        ctx.corr_checked += 1
        pg_m, pd_m, ref_m = m
        bad = ["gen row %d PG impl %r model %s" % (r, a, float(b)) for r, (a, b) in enumerate(zip(pg_i, pg_m)) if not pf.close(b, a, 1e-7, 1e-6)]
        bad += ["bus %d PD after pfsoln impl %r model %s" % (k, a, float(b)) for k, (a, b) in enumerate(zip(pd_i, pd_m)) if not pf.close(b, a, 1e-7, 1e-6)]
        gen_ok[oi] = not bad
        if bad:
            ctx.disagreement("distributed slack pfsoln: " + "; ".join(bad[:4]), case)
    bm = ctx.coq_eval("c10b", req, T["byp_t"], shard=6, timeout=900) if T["byp_t"] else []
    for (pg_i, pd_i, case), m in zip(T["byp_p"], bm):
        ctx.corr_checked += 1
        pg_m, pd_m = m
        bad = ["gen row %d PG impl %r model %s" % (r, a, float(b)) for r, (a, b) in enumerate(zip(pg_i, pg_m)) if not pf.close(b, a, 1e-7, 1e-6)]
        bad += ["bus %d PD after pfsoln impl %r model %s" % (k, a, float(b)) for k, (a, b) in enumerate(zip(pd_i, pd_m)) if not pf.close(b, a, 1e-7, 1e-6)]
        if bad:
            ctx.disagreement("bypassed power flow (pfsoln on setpoint voltages): " + "; ".join(bad[:4]), case)
    xm = ctx.coq_eval("c10x", req, T["xw_t"], shard=8, timeout=900) if T["xw_t"] else []
    for oi, (impl, case), m in zip(idx_xw, T["xw_p"], xm):
        ctx.corr_checked += 1
        bad = ["xward row %d impl %r model %s" % (r, a, None if b is None else float(b)) for r, (a, b) in enumerate(zip(impl, m))
               if not ((a is None and b is None) or (a is not None and b is not None and pf.close(b, a, 1e-7, 1e-6)))]
        xw_ok[oi] = not bad
        if bad:
            ctx.disagreement("res_xward (distributed slack extraction): " + "; ".join(bad[:4]), case)
    for oi in range(len(T["orc"])):
        xw_ok.setdefault(oi, True)
    _judge(ctx, T, gen_ok, xw_ok)


def replay(ctx, rec):
    case = rec["case"]
    run(ctx, only=[(pp.from_json_string(case["net"]), case["opts"])])
