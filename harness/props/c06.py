"""C06 — all power flow algorithms and back-ends agree on the solution.
Oracle: differential search over {algorithm x numba x init x lightsim2grid} on radial / meshed / multi-island nets vs
the default Newton-Raphson run.  Correspondence: the (row, column, value) triples that _make_bibc_bcbv passes to
csr_matrix (captured by wrapping csr_matrix in pandapower.pf.run_bfswpf) and its ValueError vs C06.Model.bibc; the
solver selected by _run_pf_algorithm vs C06.Model.dispatch."""
import numpy as np
import pandapower as pp
from scipy.sparse import csgraph
from vf import coqrun as cq
from vf import c06_pfsoln as ps

RULE = ("flavoured nets: plain / LV-side slack behind phase-shifting transformers with calculate_voltage_angles / several gens at one bus with binding q limits and enforce_q_lims / resistive shunts and wards; 1-3 island 20 kV nets (3-6 buses per island, radial or with 1-2 chords, the ext_grid at the first or at a random "
        "bus of its island, islands interleaved in the bus table or not) x 16 solver configurations; non-trivial = at least "
        "two configurations return and the net has a chord or several islands")
ASSUMPTIONS = ["convergence of the iterative solvers is not proved; a configuration that raises LoadflowNotConverged is counted, not judged",
               "scipy.sparse.csgraph BFS order / trees / shortest paths are inputs of the BIBC model (recomputed by the harness "
               "with the same calls)", "results compared within 1e-5 (gs, fdbx, fdxb and bfsw stop on a 1e-8 p.u. mismatch)"]
TRUSTED = ["wrappers around csr_matrix and _make_bibc_bcbv installed in the harness process (no source hook)",
           "python twin of the island structure extraction (copy of the scipy calls of _make_bibc_bcbv) and of G06"]
ASSUMPTIONS += ["pfsoln model: one generator row (the ext_grid), no FACTS rows; Ybus = Cf.T*Yf + Ct.T*Yt + diag(Ysh) is checked numerically on the real matrices; "
                "the theorem 'single = std under the guard' assumes exact power balance at the non-slack buses (the quantitative form holds for any V)",
                "bfsw rotation model: one island; composition of rotations = addition of angles"]
TRUSTED += ["wrappers around _get_numba_functions (pf/run_newton_raphson_pf.py) and around _bfswpf / pfsoln in pf/run_bfswpf.py installed in the harness process",
            "the three real pfsoln functions are called directly on short-dyadic roundings of the arrays captured from real runpp calls"]
TOL = 1e-5
_shift_cases = []
CONFIGS = [dict(algorithm="nr", numba=False), dict(algorithm="nr", init="dc"), dict(algorithm="nr", init="results"),
           dict(algorithm="nr", lightsim2grid=False), dict(algorithm="nr", lightsim2grid=False, numba=False),
           dict(algorithm="iwamoto_nr"), dict(algorithm="iwamoto_nr", numba=False, init="dc"),
           dict(algorithm="bfsw"), dict(algorithm="bfsw", numba=False), dict(algorithm="bfsw", init="dc"),
           dict(algorithm="gs", max_iteration=3000), dict(algorithm="gs", numba=False, init="results", max_iteration=3000),
           dict(algorithm="fdbx"), dict(algorithm="fdxb"), dict(algorithm="fdbx", numba=False, init="dc"),
           dict(algorithm="fdxb", init="results")]

_cap = {}


def _install():
    import pandapower.pf.run_bfswpf as m
    if getattr(m, "_c06", False):
        return
    orig_csr, orig_make = m.csr_matrix, m._make_bibc_bcbv

    def csr(*a, **kw):
        if _cap.get("in_make") and a and isinstance(a[0], tuple) and len(a[0]) == 2 and "bibc" not in _cap:
            data, (rows, cols) = a[0]
            _cap["bibc"] = ([int(x) for x in rows], [int(x) for x in cols], [int(np.real(x)) for x in data], kw.get("shape"))
        return orig_csr(*a, **kw)

    def make(bus, branch, graph):
        if _cap.get("on") and "args" not in _cap:
            _cap["args"] = (bus.copy(), branch.copy(), graph.copy())
            _cap["in_make"] = True
        try:
            return orig_make(bus, branch, graph)
        finally:
            _cap["in_make"] = False

    m.csr_matrix, m._make_bibc_bcbv, m._c06 = csr, make, True
    ps.install_shift_wrappers(_cap)


def islands_of(bus, branch, G):
    """copy of the scipy part of _make_bibc_bcbv: per reference bus the tree entries and the loops"""
    from pandapower.pypower.idx_brch import F_BUS, T_BUS
    from pandapower.pypower.idx_bus import BUS_I, BUS_TYPE
    nobranch = branch.shape[0]
    refs = bus[bus[:, BUS_TYPE] == 3, BUS_I]
    norefs = len(refs)
    arr = branch[:, F_BUS:T_BUS + 1].real.astype(np.int64)
    ind = dict(zip(zip(arr[:, 0], arr[:, 1]), range(0, nobranch)))
    ind.update(dict(zip(zip(arr[:, 1], arr[:, 0]), range(0, nobranch))))
    out = []
    for ref in refs:
        order, pred = csgraph.breadth_first_order(G, ref, directed=False, return_predecessors=True)
        tree_br = list(zip(pred[order[1:]], order[1:]))
        G_tree = csgraph.breadth_first_tree(G, ref, directed=False)
        if norefs > 1:
            mask = np.isin(arr[:, 0], order) & np.isin(arr[:, 1], order)
            branches = np.sort(arr[mask, :], axis=1)
        else:
            branches = np.sort(arr, axis=1)
        loops = []
        if G_tree.nnz < branches.shape[0]:
            nz = G_tree.nonzero()
            bt = np.sort(np.array([nz[0], nz[1]]).T, axis=1)
            loops = (set(zip(branches[:, 0], branches[:, 1])) - set(zip(bt[:, 0], bt[:, 1])))
        tree = []
        for brch in tree_br:
            down = csgraph.breadth_first_order(G_tree, brch[1], directed=True, return_predecessors=False)
            tree.append((int(ind[brch]), [int(x) for x in down]))
        ls = []
        for brch_loop in loops:
            _, preds = csgraph.shortest_path(G_tree, directed=False, indices=brch_loop, return_predecessors=True)
            init, end = brch_loop
            loop = [end]
            while init != end:
                end = preds[0, end]
                loop.append(end)
            ent = []
            for i in range(len(loop)):
                b = (loop[i - 1], loop[i])
                d = 1 if np.argwhere(order == b[0]) < np.argwhere(order == b[1]) else -1
                ent.append((int(ind[b] if b in ind else ind[b[::-1]]), d))
            ls.append(ent)
        out.append((tree, ls))
    return out


def guard_g06(isls):
    n = len(isls)
    return all(v >= n for tree, _ in isls for _, down in tree for v in down) and sum(1 for _, ls in isls if ls) <= 1


def guard_e2e(isls):
    """the sweep itself additionally needs a single island (DLF is sliced as (nobus-1) x (nobus-1), run_bfswpf.py:141-150)"""
    return len(isls) == 1 and guard_g06(isls)


def _isl_term(isls):
    def one(tree, ls):
        t = cq.lst(["(%s, %s)" % (cq.nat(r), cq.lst([cq.nat(v) for v in down])) for r, down in tree])
        l = cq.lst([cq.lst(["(%s, %s)" % (cq.nat(r), cq.z(d)) for r, d in ent]) for ent in ls])
        return "{| i_tree := %s; i_loops := %s |}" % (t, l)
    return cq.lst([one(t, l) for t, l in isls])


# ------------------------------------------------------------------ nets
def rand_net(rng):
    n_isl = rng.choice([1, 1, 1, 2, 2, 3])
    sizes = [rng.randint(3, 6) for _ in range(n_isl)]
    eg_first = rng.random() < 0.55
    net = pp.create_empty_network()
    groups = [[] for _ in range(n_isl)]
    if eg_first:
        # reference buses are the first rows of the bus table
        for k in range(n_isl):
            groups[k].append(pp.create_bus(net, 20.0))
    order = [k for k in range(n_isl) for _ in range(sizes[k] - (1 if eg_first else 0))]
    if rng.random() < 0.5:
        rng.shuffle(order)
    for k in order:
        groups[k].append(pp.create_bus(net, 20.0))
    meshed = 0
    for k, B in enumerate(groups):
        root = B[0] if eg_first else rng.choice(B)
        pp.create_ext_grid(net, root, vm_pu=rng.choice([1.0, 1.02]))
        nodes = [root] + [b for b in B if b != root]
        edges = []
        for i in range(1, len(nodes)):
            edges.append((nodes[rng.randrange(0, i)], nodes[i]))
        for _ in range(rng.choice([0, 0, 1, 1, 2])):
            a, b = rng.sample(B, 2)
            if (a, b) not in edges and (b, a) not in edges:
                edges.append((a, b))
                meshed += 1
        for a, b in edges:
            pp.create_line_from_parameters(net, a, b, length_km=rng.randint(2, 16) / 8, r_ohm_per_km=rng.randint(8, 32) / 64,
                                           x_ohm_per_km=rng.randint(8, 24) / 64, c_nf_per_km=rng.choice([0, 16, 160]), max_i_ka=0.5)
        for b in B:
            if b != root and rng.random() < 0.8:
                pp.create_load(net, b, p_mw=rng.randint(1, 16) / 32, q_mvar=rng.randint(0, 8) / 32)
            if b != root and rng.random() < 0.15:
                pp.create_sgen(net, b, p_mw=rng.randint(1, 8) / 32)
    return net, {"islands": n_isl, "eg_first": eg_first, "chords": meshed}


def _res(net):
    r = [net.res_bus[["vm_pu"]].values.copy(), net.res_line[["p_from_mw", "q_from_mvar", "p_to_mw", "q_to_mvar"]].values.copy(),
         net.res_ext_grid[["p_mw", "q_mvar"]].values.copy()]
    if len(net.gen):
        r.append(net.res_gen[["p_mw", "q_mvar", "vm_pu"]].values.copy())
    if len(net.trafo):
        r.append(net.res_trafo[["p_hv_mw", "q_hv_mvar", "p_lv_mw", "q_lv_mvar"]].values.copy())
    if len(net.shunt):
        r.append(net.res_shunt[["p_mw", "q_mvar"]].values.copy())
    if len(net.ward):
        r.append(net.res_ward[["p_mw", "q_mvar"]].values.copy())
    r.append(net.res_bus[["va_degree"]].values.copy())          # last: angles, compared modulo 360
    return r


def _close(a, b):
    for x, y in zip(a[:-1], b[:-1]):
        if x.shape != y.shape or not bool(np.all(np.abs(x - y) <= TOL * np.maximum(1, np.abs(x)))):
            return False
    d = np.abs((a[-1] - b[-1] + 180.0) % 360.0 - 180.0)
    return bool(np.all(d[~np.isnan(d)] <= 1e-4))


def shift_net(rng):
    """single island, the ext_grid at the first bus row on the LOW voltage side of a phase-shifting transformer
    (the sweep of bfsw traverses it from LV to HV), optionally a second transformer traversed from HV to LV"""
    net = pp.create_empty_network()
    lv = [pp.create_bus(net, 20.0) for _ in range(rng.randint(1, 3))]
    hv = [pp.create_bus(net, 110.0) for _ in range(rng.randint(1, 3))]
    pp.create_ext_grid(net, lv[0], vm_pu=rng.choice([1.0, 1.01]), va_degree=rng.choice([0.0, 0.0, 20.0]))
    for grp, kv in ((lv, 20.0), (hv, 110.0)):
        for i in range(1, len(grp)):
            pp.create_line_from_parameters(net, grp[rng.randrange(0, i)], grp[i], length_km=rng.randint(2, 16) / 8,
                                           r_ohm_per_km=rng.randint(8, 32) / 64, x_ohm_per_km=rng.randint(8, 24) / 64,
                                           c_nf_per_km=rng.choice([0, 16]), max_i_ka=0.5)
    sh = rng.choice([30.0, 150.0, 330.0, -30.0, 0.0, 180.0])
    pp.create_transformer_from_parameters(net, rng.choice(hv), rng.choice(lv), sn_mva=25, vn_hv_kv=110.0, vn_lv_kv=20.0, vkr_percent=0.4,
                                          vk_percent=10.0, pfe_kw=10.0, i0_percent=0.05, shift_degree=sh)
    sh2 = None
    if rng.random() < 0.5:
        b2 = pp.create_bus(net, 20.0)
        sh2 = rng.choice([30.0, 150.0, 0.0])
        pp.create_transformer_from_parameters(net, rng.choice(hv), b2, sn_mva=25, vn_hv_kv=110.0, vn_lv_kv=20.0, vkr_percent=0.4,
                                              vk_percent=10.0, pfe_kw=10.0, i0_percent=0.05, shift_degree=sh2)
        pp.create_load(net, b2, p_mw=rng.randint(1, 16) / 16, q_mvar=rng.randint(0, 8) / 32)
    for b in lv[1:] + hv:
        if rng.random() < 0.8:
            pp.create_load(net, b, p_mw=rng.randint(1, 16) / 16, q_mvar=rng.randint(0, 8) / 32)
    return net, {"islands": 1, "eg_first": True, "chords": 0, "flavor": "shift", "shift": [sh, sh2]}, {"calculate_voltage_angles": True}


def qlim_net(rng):
    """several generators at one bus with narrow reactive limits that bind; enforce_q_lims=True everywhere"""
    net, meta = rand_net(rng)
    while meta["islands"] != 1:
        net, meta = rand_net(rng)
    eg = int(net.ext_grid.bus.values[0])
    B = [int(b) for b in net.bus.index if int(b) != eg]
    for _ in range(rng.choice([1, 1, 2])):
        b = rng.choice([x for x in B if x not in set(net.gen.bus.values)] or B)
        vm = rng.choice([1.03, 1.04, 0.97])
        for _ in range(rng.choice([2, 2, 3])):
            pp.create_gen(net, b, p_mw=rng.randint(1, 8) / 16, vm_pu=vm,
                          min_q_mvar=-rng.randint(1, 4) / 32, max_q_mvar=rng.randint(1, 4) / 32)
    meta = dict(meta, flavor="qlim")
    return net, meta, {"enforce_q_lims": True}


def shunt_net(rng):
    """single ext_grid, no gens, purely resistive shunts / wards (GS != 0, BS == 0) or mixed ones"""
    net, meta = rand_net(rng)
    while meta["islands"] != 1:
        net, meta = rand_net(rng)
    B = [int(b) for b in net.bus.index]
    resistive_only = rng.random() < 0.6
    for _ in range(rng.randint(1, 3)):
        b = rng.choice(B)
        if rng.random() < 0.5:
            pp.create_shunt(net, b, q_mvar=0.0 if resistive_only else rng.randint(-4, 4) / 16, p_mw=rng.randint(1, 8) / 16)
        else:
            pp.create_ward(net, b, ps_mw=rng.randint(0, 4) / 32, qs_mvar=rng.randint(0, 2) / 32, pz_mw=rng.randint(1, 8) / 16,
                           qz_mvar=0.0 if resistive_only else rng.randint(-2, 2) / 16)
    return net, dict(meta, flavor="shunt"), {}


def flavoured_net(rng):
    r = rng.random()
    if r < 0.08:
        return ps.shiftmesh_net(rng)
    if r < 0.2:
        return shift_net(rng)
    if r < 0.4:
        return qlim_net(rng)
    if r < 0.6:
        return shunt_net(rng)
    net, meta = rand_net(rng)
    return net, dict(meta, flavor="plain"), {}


def _no_pq_bus(net):
    """guard of the recorded finding C06-iwamoto-no-pq: every bus carries an in-service ext_grid or gen"""
    pvb = set(int(b) for b in net.gen.bus.values[net.gen.in_service.values.astype(bool)])
    pvb |= set(int(b) for b in net.ext_grid.bus.values[net.ext_grid.in_service.values.astype(bool)])
    return all(int(b) in pvb for b in net.bus.index)


def _one_net(ctx, rng, k, bibc_cases, net=None, meta=None, common=None):
    _install()
    if net is None:
        net, meta, common = flavoured_net(rng)
    common = common or {}
    js = pp.to_json(net)
    case = {"net": js, "meta": meta, "common": common}
    import copy
    fresh = copy.deepcopy(net)
    try:
        pp.runpp(net, **common)
        ref = _res(net)
    except Exception as e:
        ctx.count("default_nr_raised_" + type(e).__name__)
        ctx.case(case, nontrivial=False)
        return
    returned = 0
    cfgs = CONFIGS if ctx.tier != "quick" else [c for c in CONFIGS if not (c["algorithm"] == "gs" and "init" in c)]
    if common.get("enforce_q_lims"):
        # bfsw does not implement the q-limit loop; init="results" would start from the limited solution
        cfgs = [c for c in cfgs if c["algorithm"] != "bfsw"]
    for cfg in cfgs:
        cfg = dict(cfg, **common)
        n2 = copy.deepcopy(net if cfg.get("init") == "results" else fresh)
        _cap.clear()
        _cap["on"] = cfg["algorithm"] == "bfsw"
        err = None
        try:
            pp.runpp(n2, **cfg)
        except Exception as e:
            err = e
        _cap["on"] = False
        name = "%s/%s" % (cfg["algorithm"], ",".join("%s=%s" % kv for kv in sorted(cfg.items()) if kv[0] != "algorithm"))
        ctx.count("flavor_%s" % meta.get("flavor", "plain"))
        g_ok, isls, s_ok = True, None, True
        if cfg["algorithm"] == "bfsw" and "args" in _cap:
            bus, branch, G = _cap["args"]
            isls = islands_of(bus, branch, G)
            g_ok = guard_e2e(isls)
            sc = ps.shift_case(_cap) if cfg.get("calculate_voltage_angles") else None
            if sc is not None:
                s_ok = ps.guard_g06t(sc)
                if len(_shift_cases) < ctx.n(60, 600):
                    _shift_cases.append(dict(sc, case=case))
            if len(bibc_cases) < ctx.n(60, 600):
                bibc_cases.append({"isls": isls, "nobus": int(bus.shape[0]), "nobranch": int(branch.shape[0]),
                                   "impl": _cap.get("bibc"), "err": type(err).__name__ + ":" + str(err)[:40] if err else None,
                                   "case": case, "guard": guard_g06(isls)})
        if err is None:
            returned += 1
            ctx.count("returned_" + cfg["algorithm"])
            if not _close(ref, _res(n2)):
                kind = "C06-bfsw-bibc-index" if (cfg["algorithm"] == "bfsw" and not g_ok) else "spec"
                r2 = _res(n2)
                ctx.violation(kind, "%s returns results different from default Newton-Raphson (max |dvm| %.3g, max |dva| %.3g deg, max |d ext_grid| %.3g)" % (
                    name, float(np.nanmax(np.abs(ref[0] - r2[0]))), float(np.nanmax(np.abs((ref[-1] - r2[-1] + 180.0) % 360.0 - 180.0))),
                    float(np.nanmax(np.abs(ref[2] - r2[2])))), dict(case, config=cfg))
        else:
            en = type(err).__name__
            ctx.count("raised_%s_%s" % (cfg["algorithm"], en))
            if en != "LoadflowNotConverged":
                kind = "spec"
                if cfg["algorithm"] == "bfsw" and en in ("ValueError", "LinAlgError") and not g_ok:
                    kind = "C06-bfsw-bibc-index"
                ctx.violation(kind, "%s fails with an internal error %s: %s (default Newton-Raphson solves the net)" % (name, en, str(err)[:80]),
                              dict(case, config=cfg))
            elif cfg["algorithm"] == "bfsw" and not g_ok:
                ctx.violation("C06-bfsw-bibc-index", "%s does not converge on a net Newton-Raphson solves (several meshed islands)" % name,
                              dict(case, config=cfg))
    ctx.case(case, nontrivial=returned >= 2 and (meta["islands"] > 1 or meta["chords"] > 0),
             sample={"meta": meta, "returned": returned} if k < 3 else None)
    ctx.count("nets_islands_%d" % meta["islands"])
    ctx.count("nets_eg_first_%s" % meta["eg_first"])


def _corr_bibc(ctx, bibc_cases):
    terms = ["run_bibc %s %s %s" % (cq.nat(c["nobus"]), cq.nat(c["nobranch"]), _isl_term(c["isls"])) for c in bibc_cases]
    model = ctx.coq_eval("c06b", "C06.Model", terms, shard=100)
    for c, m in zip(bibc_cases, model):
        ctx.corr_checked += 1
        res, g = m
        d = {"isls": c["isls"], "nobus": c["nobus"], "nobranch": c["nobranch"]}
        if bool(g) != c["guard"]:
            ctx.disagreement("guard G06: python %s Coq %s" % (c["guard"], g), d)
        if isinstance(res, cq.Err):
            if not (c["err"] and c["err"].startswith("ValueError")):
                ctx.disagreement("model predicts csr_matrix ValueError (%s), impl: %s" % (res.s, c["err"]), d)
        else:
            if c["impl"] is None:
                ctx.disagreement("no BIBC captured from the impl (%s), model returns entries" % c["err"], d)
                continue
            rows, cols, data, _ = c["impl"]
            if sorted(zip(rows, cols, data)) != sorted((r, cc, v) for r, cc, v in res):
                ctx.disagreement("BIBC triples: impl %s model %s" % (sorted(zip(rows, cols, data))[:12], sorted(map(tuple, res))[:12]), d)
            if c["err"] and c["err"].startswith("ValueError") and "negative" in c["err"]:
                ctx.disagreement("impl raised %s but the model has no negative column" % c["err"], d)


def _corr_dispatch(ctx):
    import pandapower.powerflow as pf
    names = {"_run_newton_raphson_pf": "newton", "_run_bfswpf": "bfsw", "_runpf_pypower": "pypower", "_bypass_pf_and_set_results": "bypass"}
    hit = []
    saved = {n: getattr(pf, n) for n in names}

    def mk(n):
        def f(*a, **kw):
            hit.append(names[n])
            return saved[n](*a, **kw)
        return f
    for n in names:
        setattr(pf, n, mk(n))
    try:
        terms, impls, descs = [], [], []
        for alg in ("nr", "iwamoto_nr", "bfsw", "gs", "fdbx", "fdxb"):
            for only_ref in (False, True):
                net = pp.create_empty_network()
                b0 = pp.create_bus(net, 20.0)
                pp.create_ext_grid(net, b0)
                if not only_ref:
                    b1 = pp.create_bus(net, 20.0)
                    pp.create_line_from_parameters(net, b0, b1, 1.0, 0.25, 0.125, 0.0, 0.5)
                    pp.create_load(net, b1, 0.1)
                del hit[:]
                try:
                    pp.runpp(net, algorithm=alg)
                    impls.append(hit[0] if hit else None)
                except Exception as e:
                    impls.append(cq.Err(type(e).__name__))
                terms.append("run_dispatch true %s %s" % (cq.s(alg), cq.b(only_ref)))
                descs.append({"algorithm": alg, "only_ref": only_ref})
    finally:
        for n in names:
            setattr(pf, n, saved[n])
    model = ctx.coq_eval("c06d", "C06.Model", terms, shard=100)
    for d, i, m in zip(descs, impls, model):
        ctx.corr_checked += 1
        if i != m:
            ctx.disagreement("_run_pf_algorithm dispatch: impl %r model %r" % (i, m), d)


def _corr_roots(ctx, rng):
    """numpy.roots returns as many roots as the degree left after stripping leading zeros (C06.Model.n_roots)"""
    terms, impls, descs = [], [], []
    for _ in range(60):
        co = [rng.choice([0, 0, 1, -2, 3]) / rng.choice([1, 2, 4]) for _ in range(4)]
        if rng.random() < 0.3:
            co[0] = co[1] = 0.0
        impls.append(int(len(np.roots(co))) if any(co) else 0)
        terms.append("run_n_roots %s" % cq.lst([cq.q(x) for x in co]))
        descs.append({"coefficients": co})
    model = ctx.coq_eval("c06r", "C06.Model", terms, shard=100)
    for d, i, m in zip(descs, impls, model):
        ctx.corr_checked += 1
        if i != m:
            ctx.disagreement("number of roots returned by numpy.roots: impl %s model %s" % (i, m), d)



def _corr_shift(ctx, model=None):
    """bfsw phase-shift post-rotation: angle(V passed to pfsoln / V returned by _bfswpf) per bus vs C06.Shift.rot_impl"""
    if not _shift_cases:
        return
    if model is None:
        model = ctx.coq_eval("c06s", "Base.QN Base.QC C06.Pfsoln C06.Shift", [ps.shift_term(sc) for sc in _shift_cases], shard=100)
    for sc, m in zip(_shift_cases, model):
        ctx.corr_checked += 1
        d = {"root": sc["root"], "edges": sc["edges"], "trafos": sc["trafos"]}
        per_bus, tree_ok, g = m
        gp = ps.guard_g06t(sc)
        ctx.count("shift_guard_%s" % gp)
        if not tree_ok:
            ctx.disagreement("the BFS branch list of the impl is not accepted as a tree by the model (tree_ok false)", d)
        if bool(g) != gp:
            ctx.disagreement("guard G06t: python %s Coq %s" % (gp, g), d)
        old_differs = False
        for b, rot, path, old in per_bus:
            if not ps.ang_close(rot, sc["obs"][b]):
                ctx.disagreement("rotation of bus %d: impl %.6f deg, model %.6f deg" % (b, sc["obs"][b], float(rot)), d)
                break
            if rot != path:
                ctx.disagreement("model: rot_impl %s differs from path_shift %s (contradicts the theorem)" % (rot, path), d)
                break
            old_differs = old_differs or old is None or not ps.ang_close(old, rot)
        else:
            # the rule before the repair (rot_impl_old) differs exactly on the nets with a loop-closing shifting branch
            ctx.count("shift_old_rule_%s" % ("differs" if old_differs else "same"))
            if old_differs == gp:
                ctx.disagreement("model: rot_impl_old %s although G06t is %s" % ("differs" if old_differs else "agrees", gp), d)


def _corr_pfsoln(ctx, rng, with_shift=False):
    """selection guard of _get_numba_functions and slack P/Q + branch flows of the three pfsoln variants vs C06.Pfsoln"""
    ps.install_select_wrapper()
    sel_terms, sel_impl, sel_desc = [], [], []
    val_terms, val_impl, val_desc = [], [], []
    for k in range(ctx.n(26, 300)):
        net, feat, opts = ps.pfsoln_net(rng)
        ps._sel["calls"] = []
        ps._sel["on"] = True
        try:
            pp.runpp(net, **opts)
        except Exception as e:
            ctx.count("pfsoln_net_raised_" + type(e).__name__)
            continue
        finally:
            ps._sel["on"] = False
        for key, val in feat.items():
            if val:
                ctx.count("pfsoln_feat_" + key)
        calls = ps._sel["calls"]
        if not calls:
            ctx.count("pfsoln_no_selection_call")
            continue
        rec = calls[-1]
        rows = cq.lst([ps.busrow_term(0.0, 0.0, g, b) for g, b in zip(rec["gs"], rec["bs"])])
        sel_terms.append("run_select %s %s %s %s %s" % (cq.b(rec["numba"]), cq.nat(rec["ngen"]), cq.b(rec["vdl"]), cq.b(rec["dist"]), rows))
        sel_impl.append(ps.IMPL_NAME.get(rec["impl"], rec["impl"]))
        sel_desc.append({"net": pp.to_json(net), "opts": opts, "ngen": rec["ngen"], "vdl": rec["vdl"], "dist": rec["dist"],
                         "shunt": bool(np.any(rec["gs"]) or np.any(rec["bs"]))})
        ctx.count("pfsoln_selected_" + sel_impl[-1])
        if "arrays" not in rec or rec["ngen"] != 1 or len(val_terms) >= 3 * ctx.n(14, 200):
            continue
        arr = rec["arrays"]
        err, scale = ps.ybus_structure_error(arr)
        ctx.corr_checked += 1
        if err > 1e-9 * max(1.0, scale):
            ctx.disagreement("Ybus differs from Cf.T*Yf + Ct.T*Yt + diag((GS+jBS)/baseMVA) by %.3g" % err, sel_desc[-1])
        pr = ps.rounded_problem(arr)
        if pr is None or len(pr["ref"]) != 1:
            continue
        from pandapower.pypower.idx_gen import GEN_BUS
        slack = int(pr["gen"][0, GEN_BUS].real)
        term = ps.ppc_term(pr, slack)
        impl = ps.call_variants(pr, rec["vdl"])
        # the property on the real (unrounded) solution: under the guard all three variants agree within the solver tolerance
        guard = rec["ngen"] == 1 and not rec["vdl"] and not rec["dist"] and not sel_desc[-1]["shunt"]
        real = ps.call_variants(dict(pr, bus=arr["bus"], V=arr["V"], Ybus=arr["Ybus"], Yf=arr["Yf"], Yt=arr["Yt"]), rec["vdl"])
        if all(not isinstance(v, cq.Err) for v in real.values()):
            dstd = max(abs(real["VPypower"][i] - real["VNumba"][i]) for i in (0, 1))
            dsing = max(abs(real["VSingle"][i] - real["VPypower"][i]) for i in (0, 1))
            if dstd > 1e-9:
                ctx.violation("spec", "pfsoln (pypower) and pfsoln (numba) give different slack P/Q on the same solution: %.3g" % dstd, sel_desc[-1])
            if guard and dsing > 1e-5:
                ctx.violation("spec", "pf_solution_single_slack differs from pfsoln by %.3g under its selection guard" % dsing, sel_desc[-1])
            ctx.count("pfsoln_single_%s_guard_%s" % ("agrees" if dsing <= 1e-5 else "differs", guard))
        for v in ("VPypower", "VNumba", "VSingle"):
            val_terms.append("run_pfsoln %s %s %s" % (v, term, cq.b(rec["vdl"])))
            val_impl.append(impl[v])
            val_desc.append(dict(sel_desc[-1], variant=v))
    sh_terms = [ps.shift_term(sc) for sc in _shift_cases] if with_shift else []
    terms = sh_terms + sel_terms + val_terms
    allm = ctx.coq_eval("c06p", "Base.QN Base.QC C06.Pfsoln C06.Shift", terms, shard=max(40, (len(terms) + 1) // 2), timeout=600)
    if with_shift:
        _corr_shift(ctx, allm[:len(sh_terms)])
    model = allm[len(sh_terms):len(sh_terms) + len(sel_terms)]
    for d, i, m in zip(sel_desc, sel_impl, model):
        ctx.corr_checked += 1
        name, g = m
        if i != name:
            ctx.disagreement("_get_numba_functions selects %s, model %s" % (i, name), d)
        gp = d["ngen"] == 1 and not d["vdl"] and not d["dist"] and not d["shunt"]
        if bool(g) != gp:
            ctx.disagreement("guard G06s: python %s Coq %s" % (gp, g), d)
    model = allm[len(sh_terms) + len(sel_terms):]
    for d, i, m in zip(val_desc, val_impl, model):
        ctx.corr_checked += 1
        if isinstance(i, cq.Err) or isinstance(m, cq.Err):
            if i != m:
                ctx.disagreement("pfsoln variant %s: impl %r model %r" % (d["variant"], i, m), d)
            continue
        pg, qg, flows = m
        ok = abs(float(pg) - i[0]) <= 1e-9 * max(1, abs(i[0])) and abs(float(qg) - i[1]) <= 1e-9 * max(1, abs(i[1]))
        ok = ok and len(flows) == len(i[2]) and all(abs(float(a) - b) <= 1e-9 * max(1, abs(b)) for fr, ir in zip(flows, i[2]) for a, b in zip(fr, ir))
        if not ok:
            ctx.disagreement("pfsoln variant %s: impl PG %.12g QG %.12g, model PG %.12g QG %.12g (or branch flows differ)" % (
                d["variant"], i[0], i[1], float(pg), float(qg)), d)


def _corpus():
    out = []
    # radial feeder with the ext_grid at the last bus
    net = pp.create_empty_network()
    b = [pp.create_bus(net, 20.0) for _ in range(4)]
    for i in range(3):
        pp.create_line_from_parameters(net, b[i], b[i + 1], 1.0, 0.25, 0.125, 0.0, 0.5)
    pp.create_ext_grid(net, b[3])
    for x in b[:3]:
        pp.create_load(net, x, 0.05, 0.01)
    out.append((net, {"islands": 1, "eg_first": False, "chords": 0}))
    # two meshed islands, reference buses first
    net = pp.create_empty_network()
    r = [pp.create_bus(net, 20.0) for _ in range(2)]
    for k in range(2):
        B = [r[k]] + [pp.create_bus(net, 20.0) for _ in range(2)]
        for a, c in ((0, 1), (1, 2), (0, 2)):
            pp.create_line_from_parameters(net, B[a], B[c], 1.0, 0.25, 0.125, 0.0, 0.5)
        pp.create_ext_grid(net, B[0])
        pp.create_load(net, B[1], 0.2, 0.05)
        pp.create_load(net, B[2], 0.1, 0.02)
    out.append((net, {"islands": 2, "eg_first": True, "chords": 2}))
    # no PQ bus: ext_grid + gen (repaired: iwamoto_nr must return and agree)
    net = pp.create_empty_network()
    b = [pp.create_bus(net, 20.0) for _ in range(2)]
    pp.create_ext_grid(net, b[0])
    pp.create_line_from_parameters(net, b[0], b[1], 1.0, 0.25, 0.125, 0.0, 0.5)
    pp.create_gen(net, b[1], p_mw=0.25, vm_pu=1.04)
    out.append((net, {"islands": 1, "eg_first": True, "chords": 0, "flavor": "no-pq"}))
    # two 30-degree transformers from two HV buses to one LV bus: one of them closes a loop of the BFS tree (repaired: C06-bfsw-shift-chord)
    net = pp.create_empty_network()
    h0, h1 = pp.create_bus(net, 110.0), pp.create_bus(net, 110.0)
    l2, l3 = pp.create_bus(net, 20.0), pp.create_bus(net, 20.0)
    pp.create_ext_grid(net, h0)
    pp.create_line_from_parameters(net, h0, h1, 1.0, 0.25, 0.125, 0.0, 0.5)
    for hv in (h0, h1):
        pp.create_transformer_from_parameters(net, hv, l2, sn_mva=25, vn_hv_kv=110.0, vn_lv_kv=20.0, vkr_percent=0.4, vk_percent=10.0,
                                              pfe_kw=10.0, i0_percent=0.05, shift_degree=30.0)
    pp.create_line_from_parameters(net, l2, l3, 1.0, 0.25, 0.125, 0.0, 0.5)
    pp.create_load(net, l3, 1.0, 0.2)
    out.append((net, {"islands": 1, "eg_first": True, "chords": 1, "flavor": "shiftmesh", "shift": [30.0, 30.0]}, {"calculate_voltage_angles": True}))
    return out


def run(ctx):
    rng = ctx.rng
    bibc_cases = []
    del _shift_cases[:]
    for item in _corpus():
        _one_net(ctx, rng, 99, bibc_cases, net=item[0], meta=item[1], common=item[2] if len(item) > 2 else None)
        ctx.count("corpus")
    for k in range(ctx.n(40, 400)):
        _one_net(ctx, rng, k, bibc_cases)
    _corr_bibc(ctx, bibc_cases)
    _corr_dispatch(ctx)
    _corr_roots(ctx, rng)
    _corr_pfsoln(ctx, rng, with_shift=True)


def replay(ctx, rec):
    case = rec["case"]
    del _shift_cases[:]
    net = pp.from_json_string(case["net"])
    bibc_cases = []
    _one_net(ctx, ctx.rng, 0, bibc_cases, net=net, meta=case.get("meta", {"islands": 1, "eg_first": True, "chords": 0}),
             common=case.get("common"))
    _corr_bibc(ctx, bibc_cases)
    _corr_shift(ctx)
