"""C20 — saving and loading a network loses nothing.
Correspondence: custom columns of every dtype with generated cells (tiny / huge / many-digit floats, +-inf, NaN, subnormals,
int64, bool, nullable Int64, string dtype, object columns with numeric-looking / empty / 'nan' strings, None, mixed) through the
real to_json / from_json_string vs C20.Model.run_col (exact: the decoded double must be the double nearest to the model's
rational).  Oracle: deep comparison (tables, indices, columns, dtypes, values, std types, options, controllers,
characteristics) of generated nets after to_json (string, file, encrypted), pickle, Excel, SQLite + identical runpp results."""
import copy, math, os, tempfile, warnings
from fractions import Fraction
import numpy as np, pandas as pd
import pandapower as pp
from vf import coqrun as cq, nets

RULE = ("meshed 4-8 bus nets (lines, trafos, trafo3w, loads, sgens, shuffled indices, out-of-service elements) with unusual names "
        "(numeric-looking, empty, unicode), custom columns of 8 dtypes filled from cell generators (float classes: dyadic, decimal, "
        "random 17-digit, 1e-20..1e-300 tiny, 1e17..1e300 huge, +-inf, NaN, rarely subnormal), a controller with a characteristic, "
        "user_pf_options; non-trivial = net with custom columns holding at least one value outside the dyadic class")
ASSUMPTIONS = ["the impl's float text is compared with the model's exact rounding within one unit of the last kept digit (ujson scales by 10**15 in double arithmetic)",
               "pandas/ujson text codec as observed (fixed 15 decimals for 1e-15<=|x|<=1e16, else 15 significant digits); the model takes the decimal exponent of such values from the harness and validates it",
               "NaN, None and pd.NA are one 'missing' class in object columns", "runpp is an oracle"]
TRUSTED = ["pandas.read_json(precise_float=True) returns the double nearest to the decimal text", "openpyxl / sqlite3 / pickle"]
MIN_NORMAL = 2.2250738585072014e-308
STRS = ["123", "1e5", "", "nan", "None", " 7 ", "true", "0.5", "-1", "ünï", "a,b", '"q"', "{}", "[1]", "null", "NaN", "x\ny"]


def gen_float(rng):
    r = rng.random()
    if r < 0.25:
        return rng.randint(-4000, 4000) / 64.0
    if r < 0.4:
        return rng.choice([0.1, 0.2, 0.3, 1.1, 2.675, 1 / 3, 2 / 3, 0.1 + 0.2, 123456.789012345678, 1e15 + 0.3, -7.77])
    if r < 0.6:
        return (rng.random() - 0.5) * 10 ** rng.randint(-6, 9)
    if r < 0.7:
        return rng.choice([1, -1]) * rng.random() * 10 ** rng.randint(-300, -16)
    if r < 0.8:
        return rng.choice([1, -1]) * rng.random() * 10 ** rng.randint(17, 300)
    if r < 0.86:
        return float("nan")
    if r < 0.9:
        return rng.choice([float("inf"), float("-inf")])
    if r < 0.93:
        return 0.0
    return rng.choice([1e-15, 9.999999999999999e-16, 1e16, 1.0000000000000002e16, 5e-16, 1e-14, 0.5e-15])


def scale_of(x):
    """10^(e-14) with 10^e <= |x| < 10^(e+1), exact"""
    f = abs(Fraction(x))
    e = int(math.floor(math.log10(float(f)))) if f >= Fraction(MIN_NORMAL) else int(math.floor(math.log10(f.numerator) - math.log10(f.denominator)))
    while Fraction(10) ** e > f:
        e -= 1
    while Fraction(10) ** (e + 1) <= f:
        e += 1
    return Fraction(10) ** (e - 14)


def cell_term(v):
    """-> (scale literal, cell literal)"""
    if v is None or v is pd.NA:
        return "(1, CNone)"
    if isinstance(v, (bool, np.bool_)):
        return "(1, CB %s)" % cq.b(bool(v))
    if isinstance(v, (int, np.integer)):
        return "(1, CI %s)" % cq.z(int(v))
    if isinstance(v, str):
        return "(1, CS %s)" % cq.s(v.replace("\n", "\\n"))
    f = float(v)
    if math.isnan(f):
        return "(1, CNaN)"
    if math.isinf(f):
        return "(1, CInf %s)" % cq.b(f < 0)
    if f == 0:
        return "(1, CF 0)"
    return "(%s, CF %s)" % (cq.q(scale_of(f)), cq.q(f))


def impl_cell(v):
    if v is None or v is pd.NA:
        return "none"
    if isinstance(v, (bool, np.bool_)):
        return ["b", bool(v)]
    if isinstance(v, (int, np.integer)):
        return ["i", int(v)]
    if isinstance(v, str):
        return ["s", v.replace("\n", "\\n")]
    f = float(v)
    if math.isnan(f):
        return "nan"
    if math.isinf(f):
        return ["inf", f < 0]
    return ["f", f]


def model_cell(m):
    if isinstance(m, list) and m[0] == "f":
        return ["f", float(m[1])]          # Fraction -> nearest double (correctly rounded)
    return m


def custom_columns(rng, n, allow_sub):
    cols = {}
    fl = [gen_float(rng) for _ in range(n)]
    has_sub = False
    if allow_sub and rng.random() < 0.5:
        fl[rng.randrange(n)] = rng.choice([1e-310, 5e-324, -3e-320])
        has_sub = True
    cols["c_float"] = ("DFloat", pd.Series(fl, dtype="float64"))
    cols["c_int"] = ("DInt", pd.Series([rng.choice([0, 1, -1, 2 ** 40, -2 ** 53 - 1, rng.randint(-10 ** 6, 10 ** 6)]) for _ in range(n)], dtype="int64"))
    cols["c_bool"] = ("DBool", pd.Series([rng.random() < 0.5 for _ in range(n)], dtype="bool"))
    cols["c_str"] = ("DObject", pd.Series([rng.choice(STRS + [None]) for _ in range(n)], dtype=object))
    mixed = [rng.choice([1, 2.5, True, None, float("nan"), "a", "12", 0.1]) for _ in range(n)]
    cols["c_mixed"] = ("DObject", pd.Series(mixed, dtype=object))
    cols["c_nint"] = ("DNullInt", pd.Series(pd.array([rng.choice([None, rng.randint(-5, 5)]) for _ in range(n)], dtype="Int64")))
    cols["c_string"] = ("DString", pd.Series(pd.array([rng.choice(STRS + [None]) for _ in range(n)], dtype="string")))
    return cols, has_sub


def rand_arrays(rng):
    """1-D numpy arrays of the dtype classes int / bool / float / object / str, each empty with probability 1/2; a tuple"""
    out = {}
    for name, dt, vals in (("a_int", np.int64, [3, -1, 2 ** 40]), ("a_i32", np.int32, [1, 2]), ("a_bool", np.bool_, [True, False, True]),
                           ("a_float", np.float64, [0.5, 1e-20, 3.0]), ("a_obj", object, ["x", 1, None]), ("a_str", str, ["a", "bc"])):
        if rng.random() < 0.6:
            out[name] = np.array([] if rng.random() < 0.5 else vals[:rng.randint(1, len(vals))], dtype=dt)
    if rng.random() < 0.5:
        out["a_tuple"] = rng.choice([(), (1, 2.5, "a"), (True,)])
    return out


def rand_scalars(rng):
    """floats outside of tables: +-inf, NaN and finite values as python floats and numpy floats, also nested in a list / dict"""
    pool = [float("-inf"), float("inf"), float("nan"), np.float64("-inf"), np.float64("inf"), np.float64("nan"), -2.5, np.float64(1e-20), 0.1 + 0.2]
    out = {"s_%d" % i: rng.choice(pool) for i in range(rng.randint(1, 4))}
    if rng.random() < 0.5:
        out["s_list"] = [rng.choice(pool) for _ in range(rng.randint(0, 3))]
    if rng.random() < 0.5:
        out["s_dict"] = {"k%d" % i: rng.choice(pool) for i in range(rng.randint(1, 3))}
    return out


def add_groups(rng, net):
    """1-2 groups with 2-3 element types each and mixed reference columns: net.group gets duplicate index labels"""
    from pandapower.create import create_group
    net.line["name"] = ["ln %d" % i for i in range(len(net.line))]
    net.load["name"] = ["ld %d" % i for i in range(len(net.load))]
    for g in range(rng.randint(1, 2)):
        ets = rng.sample([t for t in ("bus", "line", "load", "trafo") if len(net[t])], rng.randint(2, 3))
        elements, refs = [], []
        for et in ets:
            idx = rng.sample(list(net[et].index), rng.randint(1, min(3, len(net[et]))))
            if et in ("line", "load") and rng.random() < 0.6:
                elements.append([net[et].name.at[i] for i in idx]); refs.append("name")
            else:
                elements.append([int(i) for i in idx]); refs.append(None)
        create_group(net, ets, elements, name=rng.choice(["grp", "12", ""]) + str(g), reference_columns=refs)


def make_net(ctx, rng, allow_sub=False):
    net = nets.rand_net(rng, nb=rng.randint(4, 8), chords=rng.randint(0, 2), n_trafo=rng.randint(0, 2), shuffle_index=rng.random() < 0.6,
                        n_trafo3w=rng.choice([0, 0, 1]), oos=0.15)
    tab = rng.choice(["bus", "line", "load"])
    cols, has_sub = custom_columns(rng, len(net[tab]), allow_sub)
    for c, (d, ser) in cols.items():
        ser.index = net[tab].index
        net[tab][c] = ser
    names = [rng.choice(STRS + ["Bus %d" % i, None]) for i in range(len(net.bus))]
    net.bus["name"] = pd.Series(names, index=net.bus.index, dtype=object)
    if rng.random() < 0.5:
        net.user_pf_options = {"tolerance_mva": rng.choice([1e-6, 1e-9]), "calculate_voltage_angles": rng.random() < 0.5}
    if rng.random() < 0.65 and len(net.load):
        from pandapower.control import ConstControl
        from pandapower.control.util.characteristic import Characteristic, SplineCharacteristic
        # element_index: sometimes an EMPTY int array (its dtype must survive), else one or two load indices
        ei = rng.choice([np.array([], dtype=np.int64), [int(net.load.index[0])], np.array([int(i) for i in net.load.index[:2]], dtype=np.int64)])
        c = ConstControl(net, "load", "p_mw", element_index=ei, profile_name=None, data_source=None)
        # array / tuple attributes of every dtype class, empty and non-empty (objects are serialised attribute by attribute)
        for name, arr in rand_arrays(rng).items():
            setattr(c, name, arr)
        for name, v in rand_scalars(rng).items():              # +-inf / NaN scalars as attributes
            setattr(c, name, v)
        Characteristic(net, [0.0, 1.0, 2.5], [1.0, 3.0, 2.0])
        SplineCharacteristic(net, [0.0, 1.0, 2.5, 4.0], [1.0, 3.0, 2.0, 5.0], interpolator_kind="Pchip")
    if rng.random() < 0.5:
        for name, arr in rand_arrays(rng).items():           # net-level entries
            net["user_" + name] = arr
    if rng.random() < 0.5:
        sc = rand_scalars(rng)
        net["user_scalars"] = sc                              # a dict entry
        net["user_scalar"] = sc["s_0"]
    if rng.random() < 0.6:
        add_groups(rng, net)
    if rng.random() < 0.4:
        pp.create_std_type(net, {"r_ohm_per_km": 0.1 + rng.random(), "x_ohm_per_km": 0.3, "c_nf_per_km": 10.0, "max_i_ka": rng.choice([0.5, float("inf")]), "lim": rng.choice([float("-inf"), float("nan"), -1.5, np.float64("-inf")]), "note": rng.choice(STRS)}, rng.choice(["my type", "12", ""]), "line")
    return net, tab, cols, has_sub


# ------------------------------------------------------------------ deep comparison
def missing(v):
    return v is None or v is pd.NA or (isinstance(v, float) and math.isnan(v))


_LAST = [""]


def seq_equal(a, b):
    """arrays: same type, dtype, shape and values (floats within 1e-14, NaN == NaN); tuples / lists: same type and items"""
    if type(a) is not type(b):
        return False
    if isinstance(a, np.ndarray):
        if a.dtype != b.dtype or a.shape != b.shape:
            return False
        if a.dtype.kind == "f":
            return bool(np.allclose(a, b, rtol=0, atol=1e-14, equal_nan=True))
        return all((x is None and y is None) or (x == y and type(x) is type(y)) for x, y in zip(a.ravel().tolist(), b.ravel().tolist()))
    if len(a) != len(b):
        return False
    for x, y in zip(a, b):
        if type(x) is not type(y) or not val_equal(x, y):
            return False
    return True


def val_equal(a, b):
    """recursive, dtype aware equality of attribute values"""
    if isinstance(a, (np.ndarray, tuple, list)) or isinstance(b, (np.ndarray, tuple, list)):
        return seq_equal(a, b)
    if isinstance(a, dict) or isinstance(b, dict):
        return isinstance(a, dict) and isinstance(b, dict) and list(a.keys()) == list(b.keys()) and all(val_equal(a[k], b[k]) for k in a)
    if isinstance(a, (float, np.floating)) and isinstance(b, (float, np.floating)):
        # outside of tables floats are written with repr: exact, sign of infinity included
        return type(a) is type(b) and bool(a == b or (a != a and b != b))
    if isinstance(a, pd.DataFrame):
        return isinstance(b, pd.DataFrame) and a.equals(b)
    if missing(a) or missing(b):
        return missing(a) and missing(b)
    if hasattr(a, "__dict__") and not callable(a) and not isinstance(a, type):
        return obj_equal(a, b)
    try:
        return bool(a == b) and (isinstance(a, (bool, np.bool_)) == isinstance(b, (bool, np.bool_)))
    except Exception:
        return repr(a) == repr(b)


def is_npbool_defect(a, b):
    """repaired defect (fix: numpy booleans outside of tables survive the JSON round trip), tag kept for diagnosis: numpy bools were written as the strings "true"/"false" and read back with bool(str): False -> True"""
    if isinstance(a, np.ndarray) and isinstance(b, np.ndarray) and a.dtype == np.bool_ and b.dtype == np.bool_ and a.shape == b.shape:
        return bool(b.all()) and not bool(a.all())
    if isinstance(a, np.bool_) and isinstance(b, (bool, np.bool_)):
        return (not bool(a)) and bool(b)
    return False


def obj_diffs(x, y):
    """controller / characteristic objects: same class, same attributes (arrays by dtype, shape and value).  Returns the list of
    differing attributes as (name, description, is_npbool_defect).  JSONSerializableClass.equals itself raises on list attributes
    (pd.notna of a list), so it is not used"""
    if type(x).__name__ != type(y).__name__:
        return [("__class__", "%s vs %s" % (type(x).__name__, type(y).__name__), False)]
    dx = {k: v for k, v in x.__dict__.items() if k not in ("_interpolator", "net")}
    dy = {k: v for k, v in y.__dict__.items() if k not in ("_interpolator", "net")}
    out = []
    if set(dx) != set(dy):
        out.append(("__dict__", "attribute sets differ: %s" % sorted(set(dx) ^ set(dy)), False))
    for k in dx:
        if k not in dy:
            continue
        a, b = dx[k], dy[k]
        try:
            ok = val_equal(a, b)
        except Exception:
            ok = False
        if not ok:
            out.append((k, "%r (%s) vs %r (%s)" % (a, getattr(a, "dtype", type(a).__name__), b, getattr(b, "dtype", type(b).__name__)), is_npbool_defect(a, b)))
    return out


def obj_equal(x, y):
    return not obj_diffs(x, y)


def cmp_df(name, a, b, tol_abs, out, strict_dtype=True):
    if list(a.columns) != list(b.columns):
        out.append((name, "columns", "%s vs %s" % (list(a.columns)[:12], list(b.columns)[:12]))); return
    if list(a.index) != list(b.index) or (strict_dtype and len(a) and a.index.dtype != b.index.dtype):
        out.append((name, "index", "%s(%s) vs %s(%s)" % (list(a.index)[:8], a.index.dtype, list(b.index)[:8], b.index.dtype))); return
    for c in a.columns:
        if strict_dtype and str(a[c].dtype) != str(b[c].dtype):
            out.append((name, "dtype:" + str(c), "%s vs %s" % (a[c].dtype, b[c].dtype)))
        for i, (x, y) in enumerate(zip(a[c].values, b[c].values)):
            if missing(x) or missing(y):
                if not (missing(x) and missing(y)):
                    out.append((name, "value:" + str(c), "%r vs %r" % (x, y)))
                continue
            if isinstance(x, (float, np.floating)) and isinstance(y, (float, np.floating, int, np.integer)):
                if math.isinf(x) or math.isinf(float(y)):
                    if x != y:
                        out.append((name, "value:" + str(c), "%r vs %r" % (x, y)))
                elif abs(x - y) > tol_abs * max(1.0, abs(x)):
                    out.append((name, "value:" + str(c), "%r vs %r" % (x, y)))
            elif hasattr(x, "__dict__") and not isinstance(x, str):
                for attr, desc, npb in obj_diffs(x, y):
                    out.append((name, ("npbool:" if npb else "object:") + "%s.%s" % (type(x).__name__, attr), desc[:200]))
            else:
                try:
                    same = bool(x == y) and (isinstance(x, str) == isinstance(y, str))
                except Exception:
                    same = repr(x) == repr(y)
                if not same:
                    out.append((name, "value:" + str(c), "%r vs %r" % (x, y)))


def deep_compare(a, b, tol_abs, strict_dtype=True, only_elements=False):
    out = []
    for k in a.keys():
        if k.startswith("_") or k.startswith("res_"):
            continue
        va = a[k]
        if isinstance(va, pd.DataFrame):
            if only_elements and (len(va) == 0 or k in ("characteristic", "controller")):
                continue
            if k not in b or not isinstance(b[k], pd.DataFrame):
                out.append((k, "missing table", "")); continue
            vb = b[k]
            if only_elements:
                common = [c for c in va.columns if c in vb.columns and not str(c).startswith("c_") and c != "geo"]
                miss = [c for c in va.columns if c not in vb.columns and not str(c).startswith("c_") and c != "geo"]
                if miss:
                    out.append((k, "columns", "missing %s" % miss))
                cmp_df(k, va[common], vb[common], tol_abs, out, strict_dtype=False)
            else:
                cmp_df(k, va, vb, tol_abs, out, strict_dtype)
        elif not only_elements and isinstance(va, (np.ndarray, tuple)):
            if k not in b or not seq_equal(va, b[k]):
                out.append((k, "npbool:net entry" if (k in b and is_npbool_defect(va, b[k])) else "net entry", "%r (%s) vs %r (%s)" % (va, getattr(va, "dtype", type(va).__name__), b.get(k), getattr(b.get(k), "dtype", type(b.get(k)).__name__))))
        elif not only_elements and (k in ("std_types", "user_pf_options", "name", "f_hz", "sn_mva") or k.startswith("user_")):
            if not val_equal(va, b.get(k)):
                out.append((k, "value", "%r vs %r" % (str(va)[:80], str(b.get(k))[:80])))
    return out


def res_equal(a, b):
    try:
        pp.runpp(a, numba=False); ok_a = True
    except Exception:
        ok_a = False
    try:
        pp.runpp(b, numba=False); ok_b = True
    except Exception:
        ok_b = False
    if ok_a != ok_b:
        return False
    if not ok_a:
        return True
    for t in ("res_bus", "res_line", "res_trafo", "res_load"):
        if not np.allclose(a[t].values.astype(float), b[t].values.astype(float), atol=1e-9, equal_nan=True):
            return False
    return True


def classify(diffs, src_net, fmt):
    """all differences are +-inf cells read back as NaN (JSON) -> recorded finding"""
    def is_numstr(w, d):
        a, _, b = d.partition(" vs ")
        try:
            return w.startswith("value:") and a.startswith("'") and float(a.strip("'")) == float(b)
        except ValueError:
            return False
    def is_group_list_as_str(t, w, d):
        a, _, b = d.partition(" vs ")
        return t == "group" and w == "value:element_index" and a.startswith("[") and b.strip("'\"") == a
    if fmt == "excel" and diffs and all(is_numstr(w, d) or is_group_list_as_str(t, w, d) for t, w, d in diffs):
        if any(is_group_list_as_str(t, w, d) for t, w, d in diffs):
            return "C20-excel-group-element-index-as-string"
        return "C20-excel-numeric-looking-strings"

    def is_inf(w, d):
        return w.startswith("value:") and d.split(" vs ")[0] in ("inf", "-inf", "np.float64(inf)", "np.float64(-inf)") and d.split(" vs ")[1] in ("nan", "np.float64(nan)", "None")
    if fmt.startswith("json") and diffs and all(w.startswith("value:") and d.split(" vs ")[0] in ("inf", "-inf", "np.float64(inf)", "np.float64(-inf)") and d.split(" vs ")[1] in ("nan", "np.float64(nan)", "None")
                                             for _, w, d in diffs):
        return "C20-json-inf-becomes-nan"
    return "spec"


DT_NAMES = {"float64": "DFloat", "int64": "DInt", "bool": "DBool", "object": "DObject", "Int64": "DNullInt", "string": "DString"}


def dtype_class(dt):
    s_ = str(dt)
    if s_ in ("Int64", "string", "bool", "object", "float64"):
        return DT_NAMES[s_]
    if getattr(dt, "kind", "") in ("i", "u"):
        return "DInt"
    return None


def table_term(df):
    """Gallina term of run_table for every column of df with a modelled dtype class and basic cells (not geo)"""
    cols, names = [], []
    for c in df.columns:
        cls = dtype_class(df[c].dtype)
        if c == "geo" or cls is None:
            continue
        vals = list(df[c].values)
        if cls == "DObject" and not all(missing(v) or isinstance(v, (bool, np.bool_, int, np.integer, float, str)) for v in vals):
            continue
        try:
            cells = cq.lst([cell_term(v) for v in vals])
        except Exception:
            continue
        cols.append("(%s, (%s, %s))" % (cq.s(str(c)), cls, cells))
        names.append(c)
    if not cols or not all(isinstance(i, (int, np.integer)) for i in df.index):
        return None
    return "run_table %s %s" % (cq.lst([cq.z(int(i)) for i in df.index]), cq.lst(cols)), names


def run(ctx):
    rng = ctx.rng
    terms, keep = [], []
    tterms, tkeep = [], []
    tmp = ctx.workdir
    n_nets = ctx.n(48, 700)
    for it in range(n_nets):
        allow_sub = (it % 12 == 5)
        with warnings.catch_warnings():
            warnings.simplefilter("ignore")
            net, tab, cols, has_sub = make_net(ctx, rng, allow_sub)
            case = {"seed_index": it, "table": tab, "has_subnormal": has_sub,
                    "cells": {c: [impl_cell(v) for v in ser.values] for c, (d, ser) in cols.items()}}
            fl = cols["c_float"][1].values
            nontriv = any((v == v) and (math.isinf(v) or v != round(v * 64) / 64) for v in fl)
            ctx.case(case, nontrivial=nontriv, sample=case if it < 1 else None)
            ctx.count("nets")
            ctx.count("custom_on_" + tab)
            # ---------------- JSON string
            s = pp.to_json(net)
            try:
                n2 = pp.from_json_string(s)
                err = None
            except ValueError as e:
                n2, err = None, str(e)
            if err is not None:
                k = "C20-json-subnormal-unloadable" if (has_sub and "Range error" in err) else "spec"
                ctx.violation(k, "from_json_string raises %s on a net that to_json wrote" % err[:80], case)
                ctx.count("load_raises")
            else:
                diffs = deep_compare(net, n2, 1e-14)
                if len(net.group):
                    from pandapower.groups import group_element_index
                    ctx.count("nets_with_groups")
                    for gi in sorted(set(net.group.index)):
                        for et in net.group.loc[[gi], "element_type"]:
                            try:
                                ia, ib = list(group_element_index(net, gi, et)), list(group_element_index(n2, gi, et))
                            except Exception as e:
                                ia, ib = "ok", "%s: %s" % (type(e).__name__, str(e)[:80])
                            if ia != ib:
                                diffs.append(("group", "group_element_index(%s, %s)" % (gi, et), "%s vs %s" % (ia, ib)))
                if diffs:
                    ctx.violation(classify(diffs, net, "json"), "JSON string round trip differs: %s" % diffs[:4], case)
                elif not res_equal(copy.deepcopy(net), n2):
                    ctx.violation("spec", "runpp results differ after the JSON round trip", case)
            # ---------------- model of the custom columns
            for c, (d, ser) in cols.items():
                if d == "DObject":
                    nn = [v for v in ser.values if not missing(v)]
                    # pandas parses the column as a float array iff it holds only numbers and (a float or a missing value)
                    if nn and all(isinstance(v, (int, float)) and not isinstance(v, bool) for v in nn) and \
                            (len(nn) < len(ser) or any(isinstance(v, float) for v in nn)):
                        d = "DObjNum"
                terms.append("run_col %s %s" % (d, cq.lst([cell_term(v) for v in ser.values])))
                back = None if n2 is None else [impl_cell(v) for v in n2[tab][c].values]
                keep.append((case, c, d, [impl_cell(v) for v in ser.values], back))
            # ---------------- column / table level model (C20.Column.run_table): every column of the table with the custom columns
            tt = table_term(net[tab]) if (it % 2 == 0 or has_sub) else None      # every second net (run time)
            if tt is not None:
                tterms.append(tt[0])
                tkeep.append((case, tab, tt[1], net[tab], None if n2 is None else n2[tab],
                              {c: d_ for c, (d_, _s) in cols.items()}))
            # ---------------- other formats on a rotating schedule
            clean = copy.deepcopy(net)
            if has_sub:
                continue
            k = it % 6
            # Excel / SQLite cannot restore groups (recorded finding): those paths are run with the groups and, so that the
            # rest of the net is still compared, once more without them
            variants = [net]
            if k in (4, 5) and len(net.group):
                wo = copy.deepcopy(net); wo["group"] = wo.group.iloc[0:0]
                variants.append(wo)
            for vi, net in enumerate(variants):
                try:
                    if k == 0:
                        p = os.path.join(tmp, "n%d.json" % it); pp.to_json(net, p); n3 = pp.from_json(p); fmt = "json-file"
                    elif k == 1:
                        n3 = pp.from_json_string(pp.to_json(net, encryption_key="key %d" % it), encryption_key="key %d" % it); fmt = "json-encrypted"
                    elif k in (2, 3):
                        p = os.path.join(tmp, "n%d.p" % it); pp.to_pickle(net, p); n3 = pp.from_pickle(p); fmt = "pickle"
                    elif k == 4 and it % 12 == 4:
                        p = os.path.join(tmp, "n%d_%d.xlsx" % (it, vi)); pp.to_excel(net, p); n3 = pp.from_excel(p); fmt = "excel"
                    elif k == 5 and it % 12 == 11:
                        p = os.path.join(tmp, "n%d_%d.db" % (it, vi)); pp.to_sqlite(net, p); n3 = pp.from_sqlite(p); fmt = "sqlite"
                    else:
                        break
                except Exception as e:
                    kind_ = "spec"
                    if k == 5 and len(net.group) and type(e).__name__ == "ProgrammingError" and "type 'list' is not supported" in str(e):
                        kind_ = "C20-sqlite-groups-unsupported"           # recorded: to_sqlite cannot store the list cells of net.group
                    ctx.violation(kind_, "%s round trip raises %s: %s" % (("excel" if k == 4 else "sqlite" if k == 5 else "json/pickle"), type(e).__name__, str(e)[:120]), case)
                    continue
                ctx.count("fmt_" + fmt)
                if fmt in ("excel", "sqlite"):
                    diffs = deep_compare(net, n3, 1e-9, strict_dtype=False, only_elements=True)
                    if fmt == "excel":      # an empty cell is Excel's missing value: '' cannot be represented
                        diffs = [d for d in diffs if not (d[1].startswith("value:") and d[2] in ("'' vs None", "'' vs nan"))]
                else:
                    diffs = deep_compare(net, n3, 1e-14 if fmt != "pickle" else 0.0)
                if diffs:
                    ctx.violation(classify(diffs, net, fmt), "%s round trip differs: %s" % (fmt, diffs[:4]), case)
                elif not res_equal(clean, n3):
                    ctx.violation("spec", "runpp results differ after the %s round trip" % fmt, case)
    tmodel = ctx.coq_eval("c20t", "Base.QN C20.Model C20.Column", tterms, shard=6)
    for (case, tab, names, src, back, cdt), m in zip(tkeep, tmodel):
        ctx.corr_checked += 1
        ctx.count("table_level_cases")
        m_index, m_cols, m_classes = m
        m_err = [nm for nm, r in m_cols if isinstance(r, cq.Err)]
        if any(isinstance(r, cq.Err) and r.s == "unmodelled" for _n, r in m_cols):
            ctx.disagreement("table %s: the model meets an unmodelled astype conversion in %s" % (tab, m_err), case)
            continue
        if back is None:
            if not m_err and case["has_subnormal"]:
                ctx.disagreement("impl load raised but the column model decodes every column of %s" % tab, case)
            continue
        if m_err:
            ctx.disagreement("column model predicts a Range error in %s but the impl loaded the net" % m_err, case)
            continue
        bad = []
        if [int(i) for i in m_index] != [int(i) for i in back.index] or str(back.index.dtype) != str(src.index.dtype):
            bad.append("index: impl %s (%s) model %s" % (list(back.index)[:6], back.index.dtype, m_index[:6]))
        if [nm for nm, _r in m_cols] != [c for c in back.columns if c in set(names)]:
            bad.append("column order: impl %s model %s" % ([c for c in back.columns if c in set(names)], [nm for nm, _r in m_cols]))
        for (nm, (dt, cells)), cls in zip(m_cols, m_classes):
            if nm not in back.columns:
                continue
            if dtype_class(back[nm].dtype) != DT_NAMES.get(dt) or str(back[nm].dtype) != str(src[nm].dtype):
                bad.append("dtype of %s: source %s impl %s model %s" % (nm, src[nm].dtype, back[nm].dtype, dt))
            ic = [impl_cell(v) for v in back[nm].values]
            mc = [model_cell(x) for x in cells]
            if len(ic) != len(mc) or not all(_same_cell(b_, x) for b_, x in zip(ic, mc)):
                bad.append("cells of %s: impl %s model %s" % (nm, ic[:4], mc[:4]))
            if nm in cdt:          # the class computed by the Coq model = the class the per-cell correspondence uses
                exp = cdt[nm]
                if exp == "DObject":
                    nn = [v for v in src[nm].values if not missing(v)]
                    if nn and all(isinstance(v, (int, float)) and not isinstance(v, bool) for v in nn) and \
                            (len(nn) < len(src) or any(isinstance(v, float) for v in nn)):
                        exp = "DObjNum"
                if {"objnum": "DObjNum"}.get(cls, DT_NAMES.get(cls)) != exp:
                    bad.append("class of %s: model %s expected %s" % (nm, cls, exp))
        if bad:
            ctx.disagreement("table %s: %s" % (tab, "; ".join(bad)[:700]), case)
    model = ctx.coq_eval("c20", "Base.QN C20.Model", terms, shard=70)
    for (case, c, d, src, back), m in zip(keep, model):
        ctx.corr_checked += 1
        mm = [model_cell(x) for x in m]
        raises = any(isinstance(x, cq.Err) for x in mm)
        if back is None:
            if d == "DFloat" and not raises and case["has_subnormal"]:
                ctx.disagreement("impl load raised but the model decodes every cell of %s" % c, case)
            continue
        if raises:
            ctx.disagreement("model predicts a Range error in column %s but the impl loaded the net" % c, case)
            continue
        bad = [(s_, b_, x) for s_, b_, x in zip(src, back, mm) if not _same_cell(b_, x)]
        if bad:
            ctx.disagreement("column %s (%s): (source, impl, model) %s" % (c, d, bad[:3]), case)


def _same_cell(b, m):
    if b in ("none", "nan") and m in ("none", "nan"):
        return b == m
    if isinstance(b, list) and isinstance(m, list) and b[0] == m[0]:
        if b[0] == "f":
            # ujson multiplies by 10**15 in double arithmetic: up to one unit of the last kept digit off the exact rounding
            return abs(b[1] - m[1]) <= max(1.0000001e-15, 2e-15 * abs(m[1]))
        return b[1] == m[1]
    return b == m


def replay(ctx, rec):
    ctx.notes.append("replay: re-running the generators with the recorded seed reproduces the case")
    run(ctx)
