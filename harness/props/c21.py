"""C21 — PYPOWER/MATPOWER conversion round trip.
Correspondence (stage-wise): to_ppc rows of generated nets vs C21.Model.to_line/to_trafo; from_ppc tables vs
C21.Model.from_line/from_trafo/from_bus_pq/from_bus_shunt/which/gen_which, on ppc rows produced by to_ppc and on
synthetic ppc cases.  Oracle: runpp on the original vs the net converted through to_ppc/from_ppc and through a
MATPOWER .mat file (to_mpc/from_mpc): bus voltages, slack power, total losses."""
import copy, json, math, os
import numpy as np, pandas as pd
import pandapower as pp
from fractions import Fraction
from vf import coqrun as cq
from pandapower.converter.pypower.to_ppc import to_ppc
from pandapower.converter.pypower import from_ppc as fp_mod
from pandapower.converter.pypower.from_ppc import from_ppc
from pandapower.pypower.idx_bus import BUS_I, BUS_TYPE, PD, QD, GS, BS, VM, VA, BASE_KV
from pandapower.pypower.idx_gen import GEN_BUS, PG, VG, GEN_STATUS
from pandapower.pypower.idx_brch import F_BUS, T_BUS, BR_R, BR_X, BR_B, RATE_A, TAP, SHIFT, BR_STATUS

RULE = ("(S1) synthetic ppc dicts (3-6 buses, arbitrary r/x/b/g/tap/shift incl. tap 0/1, shift, swapped voltage levels, "
        "RATE_A 0, several gens per bus, PD/QD/GS/BS of all signs) through from_ppc, every created row compared with the "
        "Coq model; (S2) generated MV nets (3-8 buses, lines from parameters incl. parallel/conductance, 0-2 transformers "
        "with hv/lv Ratio taps, shift, off-nominal rated voltages, gens, sgens, loads, shunts with own vn_kv/step, "
        "out-of-service elements, open line switches, bus-bus switches with and without impedance (switch_rx_ratio 1/2/5), f_hz 50/60, "
        "sn_mva 1/10; 20 % OPF-ready nets converted with mode='opf' and controllable sgens/loads on gen/ext_grid buses) through "
        "to_ppc -> from_ppc and to_mpc(file) -> from_mpc, each stage compared with the model and the converted nets' "
        "power flow compared with the original; non-trivial = at least one transformer or tap/shift/shunt/gen/switch "
        "feature present and the original power flow converged")
ASSUMPTIONS = ["runpp (Newton-Raphson) is an oracle: both nets are solved to tolerance_mva=1e-8; uniqueness of the solution near the flat start is assumed",
               "square roots are oracle inputs of the model; their contract |s*s-arg| <= 1e-9*max(1,|arg|) is checked per case (max residual in evidence)",
               "transformer model 'pi', calculate_voltage_angles=True, constant-power loads (documented converter scope)"]
TRUSTED = ["scipy.io savemat/loadmat (MATPOWER file path is differential only)",
           "pandapower create_* functions store the passed values unchanged"]

TOL = 1e-9
KN_G = "C21-line-g-halved"
KN_MPC = "C21-mpc-drops-branch-g"
KN_NAN = "C21-trafo-rate-nan"
KN_ONE = "C21-mpc-single-branch"
KN_IMPNAN = "C21-impedance-rate-nan"   # NaN RATE_A on a branch that from_ppc converts to an impedance (from_ppc.py:303); repaired: a recurrence is a violation
RUNKW = dict(trafo_model="pi", calculate_voltage_angles=True, tolerance_mva=1e-8, numba=False)


# ------------------------------------------------------------------ helpers
def _nan(x):
    return x is None or (isinstance(x, float) and x != x)


def _close(a, b, tol=TOL):
    """a: model value (Fraction/None/bool/int/list); b: impl value"""
    if isinstance(a, list):
        return isinstance(b, (list, tuple)) and len(a) == len(b) and all(_close(x, y, tol) for x, y in zip(a, b))
    if isinstance(a, bool) or isinstance(b, (bool, np.bool_)):
        return bool(a) == bool(b)
    if a is None or _nan(b):
        return a is None and _nan(b)
    a = float(a)
    b = float(b)
    if math.isinf(b):
        return False
    return abs(a - b) <= tol * max(1.0, abs(a), abs(b))


def _fl(x):
    if isinstance(x, list):
        return [_fl(i) for i in x]
    if isinstance(x, Fraction):
        return float(x)
    return x


def Q(x):
    """rational literal; float-derived values are rounded to 40 significant bits (relative 1e-12, three orders below the
    comparison tolerance) so that the exact arithmetic of the model stays cheap; short dyadic inputs stay exact"""
    return cq.q(x, bits=40)


def _line_term(l):
    return "{| l_r := %s; l_x := %s; l_c := %s; l_g := %s; l_len := %s; l_par := %s |}" % tuple(Q(float(v)) for v in l)


def _lrow_term(r, x, b, g):
    return "{| br_r := %s; br_x := %s; br_b := %s; br_g := %s |}" % (Q(r), Q(x), Q(b), Q(g))


# ------------------------------------------------------------------ S1: synthetic ppc -> from_ppc
def _synth_ppc(rng):
    nb = rng.randint(3, 6)
    base = rng.choice([1.0, 10.0, 100.0])
    vns = [rng.choice([110.0, 20.0, 20.0, 10.0, 0.4]) for _ in range(nb)]
    ids = rng.sample(range(0, 3 * nb), nb) if rng.random() < 0.5 else list(range(nb))
    bus = np.zeros((nb, 13))
    for i in range(nb):
        t = 3 if i == 0 else rng.choice([1, 1, 1, 2, 2, 4])
        pd_ = rng.choice([0.0, 0.0, rng.randint(-16, 16) / 8])
        qd_ = rng.choice([0.0, rng.randint(-8, 8) / 8])
        gs_ = rng.choice([0.0, 0.0, rng.randint(-4, 8) / 16])
        bs_ = rng.choice([0.0, 0.0, rng.randint(-8, 8) / 16])
        bus[i] = [ids[i], t, pd_, qd_, gs_, bs_, 1, 1.0, rng.choice([0.0, 5.0]), vns[i], 1, 1.1, 0.9]
    gens = []
    for i in range(nb):
        k = {3: rng.choice([1, 1, 2, 3]), 2: rng.choice([1, 1, 2]), 1: rng.choice([0, 0, 1]), 4: rng.choice([0, 1])}[int(bus[i, 1])]
        for _ in range(k):
            gens.append((ids[i], rng.randint(-4, 16) / 8, rng.randint(-4, 4) / 8, rng.choice([1.0, 1.01, 0.99]), rng.choice([1, 1, 1, 0])))
    rng.shuffle(gens)
    gen = np.zeros((len(gens), 21))
    for k, (b_, pg, qg, vg, st) in enumerate(gens):
        gen[k, :10] = [b_, pg, qg, 10.0, -10.0, vg, base, st, 20.0, -5.0]
    nbr = rng.randint(2, 7)
    branch = np.zeros((nbr, 13))
    brg = np.zeros(nbr)
    for k in range(nbr):
        f, t = rng.sample(range(nb), 2)
        if rng.random() < 0.5:   # prefer equal voltage
            same = [j for j in range(nb) if vns[j] == vns[f] and j != f]
            if same:
                t = rng.choice(same)
        tap = rng.choice([0.0, 1.0, 1.0, 1.025, 0.95, 1.1, 1e-9])
        shift = rng.choice([0.0, 0.0, 0.0, 30.0, 150.0, -5.0])
        r = rng.randint(0, 40) / 1024
        x = rng.choice([rng.randint(1, 80) / 1024, rng.randint(1, 80) / 1024, -rng.randint(1, 20) / 1024, 0.0])
        b_ = rng.choice([0.0, rng.randint(1, 64) / 4096, -rng.randint(1, 64) / 4096])
        rate = rng.choice([0.0, 25.0, 40.0, rng.randint(1, 800) / 8, float("nan") if rng.random() < 0.15 else 63.0])
        branch[k] = [ids[f], ids[t], r, x, b_, rate, 0, 0, tap, shift, rng.choice([1, 1, 1, 0]), -360, 360]
        brg[k] = rng.choice([0.0, 0.0, rng.randint(1, 32) / 4096])
    ppc = {"baseMVA": base, "version": 2, "bus": bus, "gen": gen, "branch": branch}
    if rng.random() < 0.7:
        ppc["branch_g"] = brg
    else:
        brg = np.zeros(nbr)
    return ppc, brg


def _from_ppc_terms(ppc, brg, f_hz):
    """Coq terms predicting what from_ppc creates, in a fixed shape; plus oracle residuals"""
    S = float(ppc["baseMVA"])
    pif = math.pi * f_hz
    bus = ppc["bus"]
    pos = {int(b): i for i, b in enumerate(bus[:, BUS_I])}
    terms = []
    for i in range(bus.shape[0]):
        terms.append("run_from_bus %s %s %s %s %s" % tuple(Q(float(v)) for v in (bus[i, BASE_KV], bus[i, PD], bus[i, QD], bus[i, GS], bus[i, BS])))
    grows = ["{| g_bus := %s; g_type := %s; g_pg := %s; g_vg := %s |}" % (cq.z(int(g[GEN_BUS])), cq.z(int(bus[pos[int(g[GEN_BUS])], BUS_TYPE])), Q(float(g[PG])), Q(float(g[VG])))
             for g in ppc["gen"]]
    terms.append("OL [run_gen_which %s; olist onat (gen_which_spec %s)]" % (cq.lst(grows), cq.lst(grows)))
    for k, br in enumerate(ppc["branch"]):
        fvn = float(bus[pos[int(br[F_BUS])], BASE_KV])
        tvn = float(bus[pos[int(br[T_BUS])], BASE_KV])
        r, x, b_, tap, shift, rate, g = (float(br[BR_R]), float(br[BR_X]), float(br[BR_B]), float(br[TAP]), float(br[SHIFT]), float(br[RATE_A]), float(brg[k]))
        zk = math.sqrt(r * r + x * x)
        ym = math.sqrt(b_ * b_ + g * g)
        terms.append("OL [run_which %s %s %s %s; run_from_line %s %s %s %s; run_from_trafo %s %s %s %s %s %s %s %s %s %s %s %s; run_from_impedance %s %s %s %s %s %s]" % (
            Q(fvn), Q(tvn), Q(tap), Q(shift),
            Q(pif), Q(S), Q(tvn), _lrow_term(r, x, b_, g),
            Q(S), Q(fvn), Q(tvn), Q(zk), Q(ym), Q(r), Q(x), Q(b_), Q(g), Q(tap), Q(shift), cq.oq(rate, 40),
            Q(S), Q(r), Q(x), Q(b_), Q(g), cq.oq(rate, 40)))
    return terms


def _from_ppc_observe(ppc, net):
    """what from_ppc created, in the shape of _from_ppc_terms"""
    bus = ppc["bus"]
    out = []
    bus_sgen = net.sgen[~net.sgen.controllable.astype(bool)] if len(net.sgen) else net.sgen
    for i in range(bus.shape[0]):
        b_ = int(bus[i, BUS_I])
        pq = [[0, float(r.p_mw), float(r.q_mvar)] for r in net.load[net.load.bus == b_].itertuples()]
        pq += [[1, float(r.p_mw), float(r.q_mvar)] for r in bus_sgen[bus_sgen.bus == b_].itertuples()]
        sh = [[float(r.p_mw), float(r.q_mvar)] for r in net.shunt[net.shunt.bus == b_].itertuples()]
        out.append([pq, sh])
    code = {"ext_grid": 0, "gen": 1, "sgen": 2, "": 3}
    gl = [code[t] for t in net._from_ppc_lookups["gen"].element_type.values]
    out.append([gl, gl])
    bl = net._from_ppc_lookups["branch"]
    bcode = {"line": 0, "trafo": 1, "impedance": 2}
    for k in range(ppc["branch"].shape[0]):
        et = bl.element_type.values[k]
        el = int(bl.element.values[k])
        out.append((bcode[et], et, el))
    return out


def _cmp_from_ppc(ctx, ppc, net, model, case, tag):
    """compare model outputs with the created tables; returns number of compared rows"""
    obs = _from_ppc_observe(ppc, net)
    nb = ppc["bus"].shape[0]
    n = 0
    for i in range(nb):
        ctx.corr_checked += 1
        n += 1
        if not _close(model[i], obs[i]):
            ctx.disagreement("%s from_ppc bus row %d: model %s impl %s" % (tag, i, _fl(model[i]), obs[i]), case)
    ctx.corr_checked += 1
    mg = model[nb]
    if mg[0] != obs[nb][0]:
        ctx.disagreement("%s gen classification: model %s impl %s" % (tag, mg[0], obs[nb][0]), case)
    if mg[0] != mg[1]:
        # gen_which (regrouped, as implemented) vs gen_which_spec (first row of its bus): equal whenever bus types are a function of the bus
        ctx.disagreement("%s gen_which differs from gen_which_spec: %s vs %s" % (tag, mg[0], mg[1]), case)
    gl = net._from_ppc_lookups["gen"]
    for k, g in enumerate(ppc["gen"]):
        et, el = gl.element_type.values[k], gl.element.values[k]
        if et in ("gen", "sgen"):
            if not _close(Fraction(float(g[PG])), net[et].p_mw.at[int(el)]):
                ctx.disagreement("%s gen row %d: PG %r not stored in %s.p_mw" % (tag, k, g[PG], et), case)
        if et in ("gen", "ext_grid"):
            # several gen rows at one bus: the voltage setpoint is the VG of the FIRST row of that bus (in to_ppc output the
            # first rows are the ext_grids/gens, later rows of the bus are controllable sgens/loads with the default VG 1.0)
            first_vg = [float(r[VG]) for r in ppc["gen"] if int(r[GEN_BUS]) == int(g[GEN_BUS])][0]
            if not _close(Fraction(first_vg), net[et].vm_pu.at[int(el)]):
                ctx.disagreement("%s gen row %d: vm_pu %r of the created %s is not the VG %r of the first gen row of its bus" % (
                    tag, k, float(net[et].vm_pu.at[int(el)]), et, first_vg), case)
            if first_vg != float(g[VG]):
                ctx.count("vg_taken_from_first_row_of_bus")
    for k in range(ppc["branch"].shape[0]):
        ctx.corr_checked += 1
        n += 1
        mw, ml, mt, mi = model[nb + 1 + k]
        code, et, el = obs[nb + 1 + k]
        ctx.count("%s_branch_as_%s" % (tag, et))
        if mw != code:
            ctx.disagreement("%s branch %d classified %s by from_ppc, %d by the model" % (tag, k, et, mw), case)
            continue
        if et == "line":
            r = net.line.loc[el]
            impl = [r.r_ohm_per_km, r.x_ohm_per_km, r.c_nf_per_km, r.g_us_per_km, r.length_km, r.parallel]
            if not _close(ml, [float(v) for v in impl]):
                ctx.disagreement("%s branch %d -> line: model %s impl %s" % (tag, k, _fl(ml), impl), case)
        elif et == "trafo":
            r = net.trafo.loc[el]
            impl = [r.sn_mva, r.vn_hv_kv, r.vn_lv_kv, r.vk_percent, r.vkr_percent, r.pfe_kw, r.i0_percent, r.shift_degree,
                    r.tap_pos, r.tap_step_percent, r.tap_changer_type == "Ratio"]
            swapped = int(r.hv_bus) == int(ppc["branch"][k, T_BUS]) and int(ppc["branch"][k, T_BUS]) != int(ppc["branch"][k, F_BUS])
            if not _close(mt[0], [v if isinstance(v, (bool, np.bool_)) else float(v) for v in impl]) or bool(mt[1]) != swapped:
                ctx.disagreement("%s branch %d -> trafo: model %s impl %s swapped %s" % (tag, k, _fl(mt), impl, swapped), case)
            if mt[1]:
                ctx.count("%s_trafo_swapped" % tag)
        elif et == "impedance":
            # sn_mva (zero or NaN rating -> MAX_VAL, repaired in /repo) and the per-unit values on that base
            r = net.impedance.loc[el]
            impl = [float(r.sn_mva), float(r.rft_pu), float(r.xft_pu), float(r.bf_pu), float(r.gf_pu)]
            if not _close(mi, impl):
                ctx.disagreement("%s branch %d -> impedance: model %s impl %s" % (tag, k, _fl(mi), impl), case)
            sym = [float(r.rtf_pu), float(r.xtf_pu), float(r.bt_pu), float(r.gt_pu)]
            if not _close(mi[1:], sym):
                ctx.disagreement("%s branch %d -> impedance is not symmetric: model %s impl to-side %s" % (tag, k, _fl(mi[1:]), sym), case)
            if mi[0] is None:
                ctx.count("%s_impedance_with_nan_rating" % tag)
    return n


def _synthetic(ctx, rng, k):
    ppc, brg = _synth_ppc(rng)
    f_hz = rng.choice([50, 60])
    case = {"ppc": {kk: (v.tolist() if isinstance(v, np.ndarray) else v) for kk, v in ppc.items()}, "f_hz": f_hz}
    js = json.loads(json.dumps(case).replace("NaN", "null"))
    try:
        net = from_ppc(copy.deepcopy(ppc), f_hz=f_hz)
    except Exception as e:
        # recorded quirk: RATE_A == 0 on an impedance-class branch raises (from_ppc.py:303 uses `sn`)
        imp = [kk for kk, br in enumerate(ppc["branch"]) if abs(br[RATE_A]) <= 1e-8]
        ctx.count("synthetic_from_ppc_raises_%s" % type(e).__name__)
        ctx.case(js, nontrivial=False)
        return None
    ctx.case(js, nontrivial=True, sample={"input": js, "created": {t: len(net[t]) for t in ("line", "trafo", "impedance", "load", "sgen", "shunt", "gen", "ext_grid")}} if k < 1 else None)
    return (ppc, net, _from_ppc_terms(ppc, brg, f_hz), js, "synthetic")


# ------------------------------------------------------------------ S2: generated nets
def _gen_net(rng):
    net = pp.create_empty_network(sn_mva=rng.choice([1.0, 1.0, 10.0]), f_hz=rng.choice([50.0, 50.0, 60.0]))
    nb = rng.randint(3, 7)
    feat = set()
    lossless = rng.random() < 0.45          # no branch conductance anywhere (guards of the findings hold)
    idx = rng.sample(range(3 * nb + 4), nb) if rng.random() < 0.5 else list(range(nb))
    buses = [pp.create_bus(net, vn_kv=20.0, index=i) for i in idx]
    edges = [(buses[rng.randrange(0, i)], buses[i]) for i in range(1, nb)]
    for _ in range(rng.randint(0, 2)):
        a, b_ = rng.sample(buses, 2)
        if (a, b_) not in edges and (b_, a) not in edges:
            edges.append((a, b_))
    oos = rng.choice([0.0, 0.0, 0.15])
    for a, b_ in edges:
        g = 0 if lossless else rng.choice([0, 0, 4, 32])
        par = rng.choice([1, 1, 2])
        pp.create_line_from_parameters(net, a, b_, length_km=rng.randint(1, 40) / 8, r_ohm_per_km=rng.randint(4, 40) / 64,
                                       x_ohm_per_km=rng.randint(8, 40) / 64, c_nf_per_km=rng.choice([0, 8, 160, 256]),
                                       max_i_ka=rng.randint(8, 40) / 64, g_us_per_km=g, parallel=par,
                                       df=rng.choice([1.0, 0.75]), in_service=rng.random() >= oos)
        if g:
            feat.add("line_g")
        if par > 1:
            feat.add("parallel")
    ntr = rng.choice([0, 1, 1, 2])
    if ntr:
        hv = pp.create_bus(net, vn_kv=110.0)
        pp.create_ext_grid(net, hv, vm_pu=rng.choice([1.0, 1.02, 0.98]), va_degree=rng.choice([0.0, 0.0, 10.0]))
        ml_mode = rng.choice(["all", "all", "none", "mixed"]) if ntr > 1 else rng.choice(["all", "all", "none"])
        for t in range(ntr):
            sn = rng.choice([25.0, 40.0, 63.0])
            pfe = 0.0 if lossless else rng.choice([0.0, 14.0, 22.0])
            i0 = rng.choice([0.0, 0.04, 0.07]) if pfe == 0 else rng.choice([0.04, 0.07, 0.01])
            kw = {}
            if ml_mode == "all" or (ml_mode == "mixed" and t == 0):
                kw["max_loading_percent"] = rng.choice([100.0, 80.0])
            tp = rng.choice([0, 0, 1, -2, 3])
            side = rng.choice(["hv", "hv", "lv"])
            tct = rng.choice(["Ratio", "Ratio", None])
            pp.create_transformer_from_parameters(
                net, hv, buses[t % nb], sn_mva=sn, vn_hv_kv=rng.choice([110.0, 110.0, 115.0]), vn_lv_kv=rng.choice([20.0, 20.0, 21.0]),
                vkr_percent=rng.choice([0.25, 0.5, 0.375]), vk_percent=rng.choice([12.0, 16.0, 10.5]), pfe_kw=pfe, i0_percent=i0,
                shift_degree=rng.choice([0.0, 150.0, 150.0, 30.0]), tap_side=side, tap_neutral=rng.choice([0, 0, 1]), tap_min=-9, tap_max=9,
                tap_step_percent=rng.choice([1.5, 1.25]), tap_step_degree=rng.choice([0.0, float("nan")]), tap_pos=tp,
                tap_changer_type=tct, parallel=rng.choice([1, 1, 2]), df=rng.choice([1.0, 0.5]),
                in_service=(t == 0) or rng.random() >= oos, **kw)
            feat.add("trafo")
            if pfe:
                feat.add("trafo_pfe")
            if tp and tct:
                feat.add("tap_" + side)
        if ml_mode == "mixed":
            feat.add("ml_nan")
    else:
        pp.create_ext_grid(net, buses[0], vm_pu=rng.choice([1.0, 1.02, 0.98]), va_degree=rng.choice([0.0, 0.0, -4.0]))
    if rng.random() < 0.15 and not lossless:
        # voltage regulator: transformer between equal voltage levels at neutral tap -> converted to a line
        a, b_ = rng.sample(buses, 2)
        pp.create_transformer_from_parameters(net, a, b_, sn_mva=10.0, vn_hv_kv=20.0, vn_lv_kv=20.0, vkr_percent=0.5, vk_percent=6.0,
                                              pfe_kw=rng.choice([0.0, 8.0]), i0_percent=0.1, shift_degree=0.0, tap_side="hv", tap_neutral=0,
                                              tap_min=-2, tap_max=2, tap_step_percent=2.5, tap_pos=rng.choice([0, 0, 1]), tap_changer_type="Ratio")
        feat.add("same_vn_trafo")
    for b_ in buses:
        if rng.random() < 0.7:
            pp.create_load(net, b_, p_mw=rng.randint(0, 24) / 8, q_mvar=rng.randint(-4, 12) / 8, in_service=rng.random() >= oos,
                           scaling=rng.choice([1.0, 1.0, 0.5]))
        if rng.random() < 0.25:
            pp.create_sgen(net, b_, p_mw=rng.randint(0, 24) / 8, q_mvar=rng.randint(-4, 4) / 8, in_service=rng.random() >= oos)
        if rng.random() < 0.2:
            pp.create_gen(net, b_, p_mw=rng.randint(0, 16) / 8, vm_pu=rng.choice([1.0, 1.01, 0.99]), in_service=rng.random() >= oos)
            feat.add("gen")
        if rng.random() < 0.2:
            pp.create_shunt(net, b_, q_mvar=rng.randint(-8, 8) / 8, p_mw=rng.randint(0, 4) / 8, step=rng.choice([1, 1, 2, 0]),
                            vn_kv=rng.choice([20.0, 20.0, 21.0]), in_service=rng.random() >= oos)
            feat.add("shunt")
    for l in net.line.index:
        if rng.random() < 0.12:
            pp.create_switch(net, net.line.at[l, rng.choice(["from_bus", "to_bus"])], l, "l", closed=rng.random() < 0.5)
            feat.add("line_switch")
    if rng.random() < 0.25 and nb >= 3:
        a, b_ = rng.sample(buses, 2)
        zsw = rng.choice([0.0, 0.5, 0.25])
        pp.create_switch(net, a, b_, "b", closed=rng.random() < 0.7, z_ohm=zsw)
        feat.add("bus_switch")
        if zsw:
            feat.add("bus_switch_z")
    if rng.random() < 0.1:
        net.bus.loc[rng.choice(buses[1:]), "in_service"] = False
        feat.add("bus_oos")
    if oos:
        feat.add("oos")
    if rng.random() < 0.2:
        # OPF-ready variant (to_ppc(mode="opf")): limits everywhere and controllable sgens/loads on the buses of the
        # voltage-controlling elements, which then share their bus with several ppc gen rows
        net.bus["min_vm_pu"] = 0.9
        net.bus["max_vm_pu"] = 1.1
        for t_, lim in (("ext_grid", 1000.0), ("gen", 50.0)):
            for c_, v_ in (("min_p_mw", -lim), ("max_p_mw", lim), ("min_q_mvar", -lim), ("max_q_mvar", lim)):
                net[t_][c_] = v_
        if len(net.gen):
            net.gen["controllable"] = True
        vbuses = [int(x) for x in net.ext_grid.bus.values] + [int(x) for x in net.gen.bus.values]
        for b_ in vbuses:
            if rng.random() < 0.7:
                pp.create_sgen(net, b_, p_mw=rng.randint(1, 8) / 8, q_mvar=rng.randint(-2, 2) / 8, controllable=True,
                               min_p_mw=0.0, max_p_mw=2.0, min_q_mvar=-1.0, max_q_mvar=1.0)
            if rng.random() < 0.3:
                pp.create_load(net, b_, p_mw=rng.randint(1, 8) / 8, q_mvar=rng.randint(0, 2) / 8, controllable=True,
                               min_p_mw=0.0, max_p_mw=2.0, min_q_mvar=-1.0, max_q_mvar=1.0)
        feat.add("opf_mode")
    return net, feat


def _guards(net, ppc):
    """python re-implementation of the guards of the recorded findings, computed from the input"""
    brg = ppc.get("branch_g")
    bus = ppc["bus"]
    g_line = False       # a branch with conductance that from_ppc converts to a line (G21_line false)
    g_any = brg is not None and bool(np.any(brg != 0))
    if brg is not None:
        for k, br in enumerate(ppc["branch"]):
            fvn, tvn = bus[int(br[F_BUS]), BASE_KV], bus[int(br[T_BUS]), BASE_KV]
            if brg[k] != 0 and fvn == tvn and br[TAP] in (0.0, 1.0) and br[SHIFT] == 0:
                g_line = True
    # NaN ratings, split by the class from_ppc gives the branch (_branch_to_which): impedance = different base voltages,
    # tap 0/1, no shift (guard of C21-impedance-rate-nan); everything else is the repaired line/trafo path
    nan_imp = nan_other = False
    for br in ppc["branch"]:
        if np.isnan(br[RATE_A]):
            fvn, tvn = bus[int(br[F_BUS]), BASE_KV], bus[int(br[T_BUS]), BASE_KV]
            if fvn != tvn and br[TAP] in (0.0, 1.0) and br[SHIFT] == 0:
                nan_imp = True
            else:
                nan_other = True
    return g_line, g_any, _NanRate(nan_other, nan_imp)


class _NanRate:
    """truthy iff a NaN rating exists outside the impedance class (the old meaning of nan_rate); .imp = the impedance class"""
    def __init__(self, other, imp):
        self.other, self.imp = other, imp

    def __bool__(self):
        return self.other


def _to_ppc_stage(ctx, net, ppc, case):
    """stage A: the rows written by to_ppc vs Model.to_line / to_trafo (in-service branches)"""
    S = float(net.sn_mva)
    pif = math.pi * float(net.f_hz)
    lk = net._pd2ppc_lookups["bus"]
    bis = ppc["internal"]["branch_is"]
    posi = np.cumsum(bis) - 1
    brg = ppc.get("branch_g", np.zeros(ppc["branch"].shape[0]))
    bus = ppc["bus"]
    terms, exps, what = [], [], []
    f, t = net._pd2ppc_lookups["branch"].get("line", (0, 0))
    for j, li in enumerate(net.line.index):
        if not bis[f + j]:
            continue
        row = ppc["branch"][posi[f + j]]
        r = net.line.loc[li]
        vn = float(bus[int(row[F_BUS]), BASE_KV])
        terms.append("run_to_line %s %s %s %s" % (Q(pif), Q(S), Q(vn), _line_term([r.r_ohm_per_km, r.x_ohm_per_km, r.c_nf_per_km, r.g_us_per_km, r.length_km, r.parallel])))
        exps.append([float(row[BR_R].real), float(row[BR_X].real), float(row[BR_B].real), float(brg[posi[f + j]].real)])
        what.append("line %d" % li)
    if len(net.trafo):
        f, t = net._pd2ppc_lookups["branch"]["trafo"]
        for j, ti in enumerate(net.trafo.index):
            if not bis[f + j]:
                continue
            row = ppc["branch"][posi[f + j]]
            r = net.trafo.loc[ti]
            bus_h = float(bus[int(row[F_BUS]), BASE_KV])
            bus_l = float(bus[int(row[T_BUS]), BASE_KV])
            ratio_type = r.tap_changer_type == "Ratio"
            ml = float(r.max_loading_percent) if "max_loading_percent" in net.trafo.columns else None
            hvside = r.tap_side == "hv"
            vnh, vnl = float(r.vn_hv_kv), float(r.vn_lv_kv)
            u1 = vnh if hvside else vnl
            tsp, tps, tnt = float(r.tap_step_percent), float(r.tap_pos), float(r.tap_neutral)
            if tsp != tsp or tps != tps or tnt != tnt:      # _replace_nan(tap_steps) -> 0
                tsp, tps, tnt = 0.0, 0.0, 0.0
            steps = tsp * (tps - tnt) / 100
            arg = u1 + u1 * steps
            sq_vn = math.sqrt(arg * arg)
            if ratio_type:
                if hvside:
                    vnh = sq_vn
                else:
                    vnl = sq_vn
            tap_lv = (vnl / bus_l) ** 2 * S
            z = r.vk_percent / 100 / r.sn_mva * tap_lv
            rr = r.vkr_percent / 100 / r.sn_mva * tap_lv
            sq_x = math.sqrt(max(z * z - rr * rr, 0.0))
            ym = r.i0_percent / 100 * r.sn_mva
            sq_b = math.sqrt(max(ym * ym - (r.pfe_kw * 1e-3) ** 2, 0.0))
            tt = ("{| t_sn := %s; t_vnh := %s; t_vnl := %s; t_vk := %s; t_vkr := %s; t_pfe := %s; t_i0 := %s; t_shift := %s; "
                  "t_tap_hv := %s; t_neutral := %s; t_pos := %s; t_step := %s; t_ratio := %s; t_par := %s; t_df := %s; t_ml := %s |}") % (
                cq.oq(float(r.sn_mva), 40), Q(float(r.vn_hv_kv)), Q(float(r.vn_lv_kv)), cq.oq(float(r.vk_percent), 40), cq.oq(float(r.vkr_percent), 40),
                Q(float(r.pfe_kw)), cq.oq(float(r.i0_percent), 40), Q(float(r.shift_degree)), cq.b(hvside), Q(tnt),
                Q(tps), Q(tsp), cq.b(ratio_type), Q(float(r.parallel)), Q(float(r.df)),
                cq.oq(ml if ml is not None else 100.0))
            terms.append("run_to_trafo %s %s %s %s %s %s %s" % (Q(S), Q(bus_h), Q(bus_l), Q(sq_vn), Q(sq_x), Q(sq_b), tt))
            rate = float(row[RATE_A].real)
            exps.append(([float(row[BR_R].real), float(row[BR_X].real), float(brg[posi[f + j]].real), float(row[BR_B].real), float(row[TAP].real),
                          float(row[SHIFT].real), rate if ml is not None else None], (sq_vn, sq_x, sq_b)))
            what.append("trafo %d" % ti)
    return terms, exps, what


def _cmp_to_ppc(ctx, model, exps, what, case):
    for m, e, w in zip(model, exps, what):
        ctx.corr_checked += 1
        if w.startswith("line"):
            if not _close(m, e):
                ctx.disagreement("to_ppc %s: model %s impl %s" % (w, _fl(m), e), case)
        else:
            row, (sq_vn, sq_x, sq_b) = e
            mrow, tap_arg, b_arg, x_arg = m
            if row[6] is None:        # no max_loading_percent column: RATE_A = 100 (not modelled)
                mrow = mrow[:6]
                row = row[:6]
            if not _close(mrow, row):
                ctx.disagreement("to_ppc %s: model %s impl %s" % (w, _fl(mrow), row), case)
            # oracle hypotheses
            for nm, s, a in (("sq_vn", sq_vn, None if tap_arg is None else tap_arg * tap_arg), ("sq_x", sq_x, x_arg), ("sq_b", sq_b, b_arg)):
                if a is None:
                    continue
                a = float(a)
                if a < 0:
                    ctx.count("sqrt_of_negative_" + nm)
                    continue
                res = abs(s * s - a) / max(1.0, abs(a))
                ctx.extra["max_sqrt_residual"] = max(ctx.extra.get("max_sqrt_residual", 0.0), res)
                if res > 1e-9:
                    ctx.disagreement("oracle hypothesis %s violated: %r^2 vs %r" % (nm, s, a), case)


def _losses(net):
    """total active losses of all branches (lines, transformers, impedances, switch impedances) = minus the sum of the
    net bus demands"""
    return -float(np.nansum(net.res_bus.p_mw.values))


def _compare_pf(net, n2, lk, opf=False):
    """spec: same bus voltages, slack power, total losses. returns list of messages"""
    bad = []
    worst = 0.0
    for b_ in net.bus.index:
        v1, a1 = net.res_bus.vm_pu.at[b_], net.res_bus.va_degree.at[b_]
        i = int(lk[b_])
        if v1 != v1:
            continue
        if i < 0 or i not in n2.res_bus.index:
            bad.append("bus %d has a voltage in the original but no counterpart in the converted net" % b_)
            continue
        v2, a2 = n2.res_bus.vm_pu.at[i], n2.res_bus.va_degree.at[i]
        da = abs((a1 - a2 + 180) % 360 - 180)
        if not (abs(v1 - v2) <= 1e-6 and da <= 1e-4):
            worst = max(worst, abs(v1 - v2), da)
            if len(bad) < 3:
                bad.append("bus %d: vm %.9f vs %.9f, va %.7f vs %.7f" % (b_, v1, v2, a1, a2))
    # slack power: injections of all voltage-controlled sources of the slack buses
    s1 = float(net.res_ext_grid.p_mw.sum()) + float(net.res_gen.p_mw.sum() if len(net.gen) else 0.0)
    if opf:
        # mode="opf": controllable sgens/loads/storages are ppc gen rows and come back as controllable sgens
        for t_, sg in (("sgen", 1.0), ("load", -1.0), ("storage", -1.0)):
            if len(net[t_]) and "controllable" in net[t_].columns:
                m = net[t_].controllable.fillna(False).astype(bool).values
                s1 += sg * float(np.nansum(net["res_" + t_].p_mw.values[m]))
    s2 = float(n2.res_ext_grid.p_mw.sum()) + float(n2.res_gen.p_mw.sum() if len(n2.gen) else 0.0)
    if len(n2.sgen):
        s2 += float(n2.res_sgen.p_mw[n2.sgen.controllable.astype(bool)].sum())
    if not abs(s1 - s2) <= 1e-5 * max(1.0, abs(s1)):
        bad.append("slack+generator active power %.8f vs %.8f MW" % (s1, s2))
    l1, l2 = _losses(net), _losses(n2)
    if not abs(l1 - l2) <= 1e-5 * max(1.0, abs(l1)):
        bad.append("total branch losses %.8f vs %.8f MW" % (l1, l2))
    return bad


def _run_conv(n2):
    pp.runpp(n2, **RUNKW)
    return n2


def _full_case(ctx, rng, k, net=None, feat=None, expect=None):
    if net is None:
        net, feat = _gen_net(rng)
    js = pp.to_json(net)
    case = {"net": js}
    # option variants of the converter: the R/X split of impedance switches and the conversion mode
    zsw = len(net.switch) and bool(((net.switch.et == "b") & net.switch.closed & (net.switch.z_ohm > 0)).any())
    rx = rng.choice([2, 1, 5]) if zsw else 2
    okw = dict(switch_rx_ratio=rx)
    if "opf_mode" in feat:
        okw["mode"] = "opf"
    try:
        pp.runpp(net, switch_rx_ratio=rx, **RUNKW)
    except Exception as e:
        ctx.count("original_pf_failed_%s" % type(e).__name__)
        ctx.case(case, nontrivial=False)
        return None
    snapshot = pp.to_json(net)
    init = rng.choice(["flat", "results"])
    ctx.count("switch_rx_ratio_%s" % rx)
    try:
        ppc = to_ppc(net, trafo_model="pi", init=init, **okw)
    except Exception as e:
        ctx.violation("spec", "to_ppc raised %s: %s" % (type(e).__name__, str(e)[:200]), case)
        ctx.case(case, nontrivial=True)
        return None
    lk = net._pd2ppc_lookups["bus"].copy()
    if ppc["branch"].shape[0] == 0:
        # isolated slack bus, no branch in service: nothing to convert (an empty branch matrix cannot be stored in a .mat file)
        ctx.count("degenerate_no_branch_in_service")
        ctx.case(case, nontrivial=False)
        return None
    for f_ in sorted(feat):
        ctx.count("feature_" + f_)
    ctx.case(case, nontrivial=bool(feat - {"oos"}), sample={"features": sorted(feat), "ppc_branch_rows": int(ppc["branch"].shape[0]),
                                                          "ppc_keys": sorted(k_ for k_ in ppc.keys() if k_.startswith("branch"))} if k < 2 else None)
    g_line, g_any, nan_rate = _guards(net, ppc)
    brg = ppc.get("branch_g", np.zeros(ppc["branch"].shape[0]))
    ta, ea, wa = _to_ppc_stage(ctx, net, ppc, case)
    # ---- ppc path
    n2 = None
    err = None
    try:
        n2 = from_ppc(copy.deepcopy(ppc), f_hz=net.f_hz)
    except Exception as e:
        err = "from_ppc raised %s: %s" % (type(e).__name__, str(e)[:200])
    stage_b = None
    if n2 is not None:
        stage_b = (ppc, n2, _from_ppc_terms(ppc, brg, float(net.f_hz)), case, "roundtrip")
        n2c = copy.deepcopy(n2)
        try:
            _run_conv(n2)
            bad = _compare_pf(net, n2, lk, opf="opf_mode" in feat)
        except Exception as e:
            bad = ["power flow of the converted net raised %s: %s" % (type(e).__name__, str(e)[:150])]
    else:
        bad = [err]
        n2c = None
    if bad:
        kinds = _classify(net, ppc, n2c, lk, g_line, nan_rate, mpc=False)
        for kd in kinds:
            ctx.violation(kd, "to_ppc/from_ppc round trip: " + "; ".join(bad[:3]), case)
    else:
        ctx.count("ppc_roundtrip_ok")
    # ---- MATPOWER file path
    from pandapower.converter.matpower.to_mpc import to_mpc
    from pandapower.converter.matpower.from_mpc import from_mpc
    fn = os.path.join(ctx.workdir, "case_%d.mat" % k)
    badm = []
    try:
        to_mpc(net, fn, trafo_model="pi", init=init, **okw)
        n3 = from_mpc(fn, f_hz=net.f_hz)
        n3.pop("_options", None)
        try:
            _run_conv(n3)
            lk1 = net._pd2ppc_lookups["bus"]
            badm = _compare_pf(net, n3, lk1, opf="opf_mode" in feat)
        except Exception as e:
            badm = ["power flow of the net converted through the .mat file raised %s: %s" % (type(e).__name__, str(e)[:150])]
    except Exception as e:
        badm = ["to_mpc/from_mpc raised %s: %s" % (type(e).__name__, str(e)[:200])]
    if badm:
        kinds = _classify(net, ppc, None, lk, g_line, nan_rate, mpc=True, g_any=g_any, matfile=fn)
        for kd in kinds:
            ctx.violation(kd, "to_mpc/from_mpc (.mat file) round trip: " + "; ".join(badm[:3]), case)
    else:
        ctx.count("mpc_roundtrip_ok")
    try:
        os.remove(fn)
    except OSError:
        pass
    return (ta, ea, wa, case), stage_b


def _mat2ppc_2d(fn):
    """_mat2ppc with the one-row branch array kept two-dimensional (undoes exactly the single-branch defect)"""
    import scipy.io
    import importlib
    fm = importlib.import_module('pandapower.converter.matpower.from_mpc')
    mpc = scipy.io.loadmat(fn, squeeze_me=True, struct_as_record=False)
    ppc = {}
    fm._copy_data_from_mpc_to_ppc(ppc, mpc, "mpc")
    ppc["branch"] = np.array(ppc["branch"], ndmin=2)
    ppc["bus"] = np.array(ppc["bus"], ndmin=2)
    fm._adjust_ppc_indices(ppc)
    fm._change_ppc_TAP_value(ppc)
    return ppc


def _undo_imp_nan_passes(net, ppc, lk, mpc, matfile, okw):
    """replace the NaN RATE_A of impedance-class branches (and only those) by the transformer's own rating, convert again,
    solve, compare: True iff the round trip is exact then"""
    try:
        p2 = _mat2ppc_2d(matfile) if mpc else copy.deepcopy(ppc)
        p2 = {k_: v for k_, v in p2.items() if k_ in ("baseMVA", "version", "bus", "gen", "branch", "branch_g")}
        p2["branch"] = np.array(p2["branch"], dtype=float)
        bus = ppc["bus"]
        bis = ppc["internal"]["branch_is"]
        posi = np.cumsum(bis) - 1
        f, t = net._pd2ppc_lookups["branch"]["trafo"]
        changed = 0
        for j, ti in enumerate(net.trafo.index):
            if not bis[f + j]:
                continue
            row = p2["branch"][posi[f + j]]
            ref = ppc["branch"][posi[f + j]]
            fvn, tvn = bus[int(ref[F_BUS]), BASE_KV], bus[int(ref[T_BUS]), BASE_KV]
            if np.isnan(row[RATE_A]) and fvn != tvn and ref[TAP] in (0.0, 1.0) and ref[SHIFT] == 0:
                row[RATE_A] = net.trafo.sn_mva.at[ti] * net.trafo.df.at[ti] * net.trafo.parallel.at[ti]
                changed += 1
        if not changed:
            return False
        n4 = from_ppc(p2, f_hz=net.f_hz)
        _run_conv(n4)
        return not _compare_pf(net, n4, lk, opf="mode" in (okw or {}))
    except Exception:
        return False


def _classify(net, ppc, n2c, lk, g_line, nan_rate, mpc, g_any=False, matfile=None, okw=None):
    """a failure is a recorded finding only if its guard fails on this input AND undoing exactly that defect makes the
    round trip pass; otherwise it is 'spec'"""
    applicable = []
    if mpc:
        if g_any:
            applicable.append(KN_MPC)
        if nan_rate:
            applicable.append(KN_NAN)
        if ppc["branch"].shape[0] == 1:
            applicable.append(KN_ONE)
    else:
        if g_line:
            applicable.append(KN_G)
        if nan_rate:
            applicable.append(KN_NAN)
    if getattr(nan_rate, "imp", False) and _undo_imp_nan_passes(net, ppc, lk, mpc, matfile, okw):
        # undoing exactly this defect (and nothing else) makes the round trip exact
        return [KN_IMPNAN]
    if not applicable:
        return ["spec"]
    try:
        if mpc:
            p2 = _mat2ppc_2d(matfile)
            if not g_any:
                applicable = [a for a in applicable if a != KN_MPC]
            if "branch_g" in ppc:
                p2["branch_g"] = np.array(ppc["branch_g"], dtype=float).real     # what the .mat path dropped
        else:
            p2 = copy.deepcopy(ppc)
        p2 = {k_: v for k_, v in p2.items() if k_ in ("baseMVA", "version", "bus", "gen", "branch", "branch_g")}
        p2["branch"] = np.array(p2["branch"], dtype=float)
        if nan_rate:
            # undo: RATE_A NaN -> the transformer's own rating
            bis = ppc["internal"]["branch_is"]
            posi = np.cumsum(bis) - 1
            f, t = net._pd2ppc_lookups["branch"]["trafo"]
            for j, ti in enumerate(net.trafo.index):
                if bis[f + j] and np.isnan(p2["branch"][posi[f + j], RATE_A]):
                    p2["branch"][posi[f + j], RATE_A] = net.trafo.sn_mva.at[ti] * net.trafo.df.at[ti] * net.trafo.parallel.at[ti]
        n4 = from_ppc(p2, f_hz=net.f_hz)
        # (the halving of the line conductance is repaired in /repo: nothing to undo for KN_G any more)
        _run_conv(n4)
        if _compare_pf(net, n4, lk, opf="mode" in (okw or {})):
            return ["spec"]
    except Exception:
        return ["spec"]
    return applicable


# ------------------------------------------------------------------ corpus
def _corpus_nets():
    out = []
    # 1: line conductance is halved (from_ppc.py:224)
    net = pp.create_empty_network()
    b = [pp.create_bus(net, 20.0) for _ in range(2)]
    pp.create_ext_grid(net, b[0])
    pp.create_line_from_parameters(net, b[0], b[1], 1.0, 0.1, 0.1, 10, 1, g_us_per_km=100.0)
    pp.create_line_from_parameters(net, b[0], b[1], 2.0, 0.1, 0.1, 10, 1, g_us_per_km=0.0)
    pp.create_load(net, b[1], 1.0, 0.5)
    out.append((net, {"line_g"}))
    # 2: MATPOWER file drops the transformer iron losses
    net = pp.create_empty_network()
    b0 = pp.create_bus(net, 110.0)
    b1 = pp.create_bus(net, 20.0)
    pp.create_ext_grid(net, b0)
    pp.create_transformer_from_parameters(net, b0, b1, sn_mva=25.0, vn_hv_kv=110.0, vn_lv_kv=20.0, vkr_percent=0.41, vk_percent=12.0,
                                          pfe_kw=14.0, i0_percent=0.07, shift_degree=150.0)
    b2 = pp.create_bus(net, 20.0)
    pp.create_line_from_parameters(net, b1, b2, 1.0, 0.1, 0.1, 10, 1)
    pp.create_load(net, b2, 5.0, 2.0)
    out.append((net, {"trafo", "trafo_pfe"}))
    # 3: one transformer without max_loading_percent next to one with it -> RATE_A NaN -> sn_mva NaN
    net = pp.create_empty_network()
    b0 = pp.create_bus(net, 110.0)
    b1 = pp.create_bus(net, 20.0)
    pp.create_ext_grid(net, b0)
    for kw in ({"max_loading_percent": 100.0}, {}):
        pp.create_transformer_from_parameters(net, b0, b1, sn_mva=25.0, vn_hv_kv=110.0, vn_lv_kv=20.0, vkr_percent=0.41, vk_percent=12.0,
                                              pfe_kw=0.0, i0_percent=0.0, shift_degree=150.0, **kw)
    pp.create_load(net, b1, 5.0, 2.0)
    out.append((net, {"trafo", "ml_nan"}))
    # 4: a case with exactly one branch cannot be read back from a .mat file
    net = pp.create_empty_network()
    b = [pp.create_bus(net, 20.0) for _ in range(2)]
    pp.create_ext_grid(net, b[0])
    pp.create_line_from_parameters(net, b[0], b[1], 1.0, 0.1, 0.1, 10, 1)
    pp.create_load(net, b[1], 1.0, 0.5)
    out.append((net, {"single_branch"}))
    # 5: a transformer at nominal ratio without phase shift becomes an impedance; without max_loading_percent its RATE_A is NaN
    #    (C21-impedance-rate-nan, from_ppc.py:303, repaired in /repo: regression witness, must pass)
    net = pp.create_empty_network()
    b0 = pp.create_bus(net, 110.0)
    b1 = pp.create_bus(net, 20.0)
    b2 = pp.create_bus(net, 20.0)
    pp.create_ext_grid(net, b0)
    for kw in ({"max_loading_percent": 100.0}, {}):
        pp.create_transformer_from_parameters(net, b0, b1, sn_mva=25.0, vn_hv_kv=110.0, vn_lv_kv=20.0, vkr_percent=0.25, vk_percent=8.0,
                                              pfe_kw=14.0, i0_percent=0.1, shift_degree=0.0, **kw)
    pp.create_line_from_parameters(net, b1, b2, 1.0, 0.1, 0.1, 10, 1)
    pp.create_load(net, b2, 2.0, 0.5)
    out.append((net, {"trafo", "ml_nan", "impedance_class"}))
    return out


# ------------------------------------------------------------------ entry points
def run(ctx):
    rng = ctx.rng
    stage_a, stage_b = [], []
    import random as _random
    for k, (net, feat) in enumerate(_corpus_nets()):
        # witnesses added later draw from their own stream, so that the generated cases of a seed do not move
        r = _full_case(ctx, rng if k < 4 else _random.Random(k), 100000 + k, net=net, feat=feat)
        ctx.count("corpus_cases")
        if r:
            stage_a.append(r[0])
            if r[1]:
                stage_b.append(r[1])
    for k in range(ctx.n(80, 700)):
        r = _synthetic(ctx, rng, k)
        ctx.count("synthetic_ppc_cases")
        if r:
            stage_b.append(r)
    for k in range(ctx.n(45, 500)):
        r = _full_case(ctx, rng, k)
        ctx.count("generated_nets")
        if r:
            stage_a.append(r[0])
            if r[1]:
                stage_b.append(r[1])
    # ---- model evaluation (one flat list of terms)
    terms = []
    for ta, ea, wa, case in stage_a:
        terms += ta
    nb_a = len(terms)
    for ppc, net, tb, case, tag in stage_b:
        terms += tb
    model = ctx.coq_eval("c21", "Base.QN C21.Model", terms, shard=100, timeout=900)
    pos = 0
    for ta, ea, wa, case in stage_a:
        _cmp_to_ppc(ctx, model[pos:pos + len(ta)], ea, wa, case)
        pos += len(ta)
    for ppc, net, tb, case, tag in stage_b:
        _cmp_from_ppc(ctx, ppc, net, model[pos:pos + len(tb)], case, tag)
        pos += len(tb)
    ctx.notes.append("stage A (to_ppc rows) terms: %d, stage B (from_ppc rows) terms: %d" % (nb_a, len(terms) - nb_a))


def replay(ctx, rec):
    case = rec.get("case", {})
    if "net" in case:
        net = pp.from_json_string(case["net"])
        r = _full_case(ctx, ctx.rng, 0, net=net, feat={"replay"})
        if r:
            ta, ea, wa, c = r[0]
            terms = list(ta) + (list(r[1][2]) if r[1] else [])
            model = ctx.coq_eval("c21r", "Base.QN C21.Model", terms, shard=150)
            _cmp_to_ppc(ctx, model[:len(ta)], ea, wa, c)
            if r[1]:
                _cmp_from_ppc(ctx, r[1][0], r[1][1], model[len(ta):], c, "replay")
    else:
        run(ctx)
