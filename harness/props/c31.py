"""C31 — tabular tap dependency uses each transformer's own table row.

Correspondence: the real `_calc_tap_from_dataframe` (2W frame and the 3W dict of `_trafo_df_from_trafo3w`) and
`_get_vk_values_from_table` (2W, 3W) of /repo are called on generated nets whose transformers share / do not share
characteristic ids at random tap positions; their outputs (vn_hv', vn_lv', shift, vk columns) and the TAP/SHIFT
columns of net._ppc["branch"] after a real runpp are compared with C31.Model (run_tap, run_vk) and, for the 2W frame, with
the model of the whole loop over both tap changers C31.ModelLoop.run_tap_loop - on the standard frame (no
tap2_dependency_table column: the second tap changer is ordinary) and on the same frame with such a column added (the
second pass becomes tabular, keyed by tap2_pos).
Oracle: real runpp of the net with the shared table versus (a) the same net in which every transformer owns a
private copy of its characteristic (fresh id) and (b) the same net with the own-row values entered directly
(2W: Ratio tap changer with the row's ratio, shift_degree +/- the row's angle, vk/vkr of the row)."""
import copy, json, math, os, glob
import numpy as np, pandas as pd
import pandapower as pp
from fractions import Fraction
from vf import coqrun as cq

RULE = ("nets with 1-4 two-winding and 0-2 three-winding transformers fed from one 110 kV bus; every transformer has "
        "tap_dependency_table on with probability 0.75, ids from {0,1,2} (so ids are shared in most nets), tap_pos in -2..2, "
        "tap side hv/lv (3W: hv/mv/lv, tap_at_star_point random); characteristic table rows per (id, step) with independent "
        "random ratio/angle/vk/vkr (and the six 3W vk columns), row order shuffled in 50 %, steps missing in 12 % of nets, "
        "duplicate keys in 5 %; non-trivial = at least two table-dependent transformers share an id")
ASSUMPTIONS = ["runpp is an oracle for the end-to-end part (its convergence is not proved)",
               "pandas DataFrame.merge(inner, on=[id, step]) keeps the order of the left (table) rows; dict(zip()) keeps the last value per key "
               "(both tied by the exact correspondence run)",
               "second tap changer (tap2_* columns, 35 % of the 2W transformers): only the rational cases Ratio with tap2_step_degree 0 and Ideal by degree "
               "are executed (C31.ModelLoop.ord_rat); the theorems about the loop hold for any ordinary rule"]
TRUSTED = ["construction of the 'private characteristic' and 'explicit values' twin nets in harness/props/c31.py"]
# The defect "lookup keyed by id only" (C31-lookup-keyed-by-id-only) was repaired in /repo (fix: key the lookup by (id, step));
# every violation is therefore unclassified ("spec").  G31 (the guard of the old behaviour) is only kept as a histogram key:
# G31_False counts the nets on which the old code failed.
KIND = "spec"
VK3 = ["vk_hv_percent", "vkr_hv_percent", "vk_mv_percent", "vkr_mv_percent", "vk_lv_percent", "vkr_lv_percent"]
TABCOLS = ["id_characteristic", "step", "voltage_ratio", "angle_deg", "vk_percent", "vkr_percent"] + VK3


# ------------------------------------------------------------------ generation
def gen_desc(rng, small=False):
    n2 = rng.randint(1, 4)
    n3 = rng.choice([0, 0, 1, 1, 2])
    if small:
        n2, n3 = 2, 0
    ids = [0, 1, 2]
    table = []
    missing = rng.random() < 0.12
    for k in ids:
        steps = [-2, -1, 0, 1, 2]
        if missing and rng.random() < 0.5:
            steps = rng.sample(steps, rng.randint(2, 4))
        for s in steps:
            table.append(_rand_row(rng, k, s))
        if rng.random() < 0.05:
            table.append(_rand_row(rng, k, rng.choice(steps)))      # duplicate key, different values
    if rng.random() < 0.5:
        rng.shuffle(table)
    pid = rng.choice([0.5, 0.8, 1.0])   # probability of using the favourite id (sharing)
    fav = rng.choice(ids)

    def pick_id():
        return fav if rng.random() < pid else rng.choice(ids)

    t2 = []
    for i in range(n2):
        dep = rng.random() < 0.75
        t2.append({"dep": dep, "id": pick_id() if (dep or rng.random() < 0.3) else None,
                   "pos": rng.randint(-2, 2), "side": rng.choice(["hv", "lv"]),
                   "shift": rng.choice([0.0, 0.0, 150.0, 30.0]),
                   "vk": rng.randint(32, 56) / 4, "vkr": rng.randint(2, 6) / 8,
                   "sn": rng.choice([25.0, 40.0]), "par_bus": (i > 0 and rng.random() < 0.25),
                   "p": rng.randint(4, 40) / 8, "q": rng.randint(0, 12) / 8, "tap2": _gen_tap2(rng)})
    t3 = []
    for i in range(n3):
        dep = rng.random() < 0.75
        t3.append({"dep": dep, "id": pick_id() if (dep or rng.random() < 0.3) else None,
                   "pos": rng.randint(-2, 2), "side": rng.choice(["hv", "mv", "lv"]), "star": rng.random() < 0.35,
                   "shift_mv": rng.choice([0.0, 0.0, 30.0]), "shift_lv": rng.choice([0.0, 150.0]),
                   "vk": [rng.randint(40, 48) / 4, rng.randint(40, 48) / 4, rng.randint(40, 48) / 4],
                   "vkr": [rng.randint(2, 4) / 8, rng.randint(2, 4) / 8, rng.randint(2, 4) / 8],
                   "p": [rng.randint(4, 24) / 8, rng.randint(2, 12) / 8]})
    return {"cva": rng.random() < 0.7, "table": table, "t2": t2, "t3": t3,
            "vm": rng.choice([1.0, 1.02])}


def _gen_tap2(rng):
    """second (ordinary) tap changer of a 2W transformer: tap2_* columns; rational cases only (Ratio with 0 degree, Ideal by degree)"""
    if rng.random() > 0.35:
        return None
    if rng.random() < 0.7:
        return {"type": "Ratio", "side": rng.choice(["hv", "lv"]), "pos": rng.randint(-2, 2), "neutral": 0,
                "pct": rng.choice([1.0, 2.5, 0.625]), "deg": 0.0}
    return {"type": "Ideal", "side": rng.choice(["hv", "lv"]), "pos": rng.randint(-2, 2), "neutral": 0, "pct": 0.0,
            "deg": rng.choice([1.0, -0.5])}


def _rand_row(rng, k, s):
    return [k, s, rng.randint(58, 70) / 64, rng.choice([0, 0, 0.5, -0.5, 1.25, -2.0, 3.0]),
            rng.randint(32, 64) / 4, rng.randint(1, 6) / 8,
            rng.randint(40, 48) / 4, rng.randint(2, 4) / 8, rng.randint(40, 48) / 4, rng.randint(2, 4) / 8,
            rng.randint(40, 48) / 4, rng.randint(2, 4) / 8]


_EMPTY = []


def empty_net():
    """pp.create_empty_network() costs 0.2-0.3 s; a deep copy of one instance 15 ms"""
    if not _EMPTY:
        _EMPTY.append(pp.create_empty_network())
    return copy.deepcopy(_EMPTY[0])


def build(desc, table=None, t2=None, t3=None):
    """net from a description (optionally with substituted table / transformer lists)"""
    table = desc["table"] if table is None else table
    t2 = desc["t2"] if t2 is None else t2
    t3 = desc["t3"] if t3 is None else t3
    net = empty_net()
    hv = pp.create_bus(net, 110.0)
    pp.create_ext_grid(net, hv, vm_pu=desc.get("vm", 1.0))
    last_mv = None
    for t in t2:
        if t.get("par_bus") and last_mv is not None:
            mv = last_mv
        else:
            mv = pp.create_bus(net, 20.0)
            pp.create_load(net, mv, p_mw=t["p"], q_mvar=t["q"])
        last_mv = mv
        kw2 = {}
        a2 = t.get("tap2")
        if a2:
            kw2 = dict(tap2_side=a2["side"], tap2_neutral=a2["neutral"], tap2_min=-2, tap2_max=2, tap2_pos=a2["pos"],
                       tap2_step_percent=a2["pct"], tap2_step_degree=a2["deg"], tap2_changer_type=a2["type"])
        pp.create_transformer_from_parameters(
            net, hv, mv, sn_mva=t["sn"], vn_hv_kv=110.0, vn_lv_kv=20.0, vkr_percent=t["vkr"], vk_percent=t["vk"],
            pfe_kw=14.0, i0_percent=0.07, shift_degree=t["shift"], tap_side=t["side"], tap_neutral=t.get("neutral", 0),
            tap_min=-2, tap_max=2, tap_pos=t["pos"], tap_step_percent=t.get("step_percent", 0.0),
            tap_step_degree=t.get("step_degree", 0.0),
            tap_changer_type=("Tabular" if t["dep"] else "Ratio"), tap_dependency_table=bool(t["dep"]),
            id_characteristic_table=t["id"], **kw2)
    for t in t3:
        mv = pp.create_bus(net, 20.0)
        lv = pp.create_bus(net, 10.0)
        pp.create_load(net, mv, p_mw=t["p"][0], q_mvar=0.25)
        pp.create_load(net, lv, p_mw=t["p"][1], q_mvar=0.125)
        pp.create_transformer3w_from_parameters(
            net, hv, mv, lv, vn_hv_kv=110.0, vn_mv_kv=20.0, vn_lv_kv=10.0, sn_hv_mva=63.0, sn_mv_mva=40.0, sn_lv_mva=25.0,
            vk_hv_percent=t["vk"][0], vk_mv_percent=t["vk"][1], vk_lv_percent=t["vk"][2],
            vkr_hv_percent=t["vkr"][0], vkr_mv_percent=t["vkr"][1], vkr_lv_percent=t["vkr"][2],
            pfe_kw=30.0, i0_percent=0.1, shift_mv_degree=t["shift_mv"], shift_lv_degree=t["shift_lv"],
            tap_side=t["side"], tap_step_percent=0.0, tap_step_degree=0.0, tap_pos=t["pos"], tap_neutral=0, tap_min=-2,
            tap_max=2, tap_changer_type=("Tabular" if t["dep"] else "Ratio"), tap_at_star_point=bool(t["star"]),
            tap_dependency_table=bool(t["dep"]), id_characteristic_table=t["id"])
    net["trafo_characteristic_table"] = pd.DataFrame(
        [[float(x) for x in r] for r in table], columns=TABCOLS).astype({"id_characteristic": "int64"})
    return net


# ------------------------------------------------------------------ Gallina terms
def crow_term(r, ncols):
    vk = r[4:6] if ncols == 2 else r[6:12]
    return "{| c_id := %s; c_step := %s; c_ratio := %s; c_angle := %s; c_vk := %s |}" % (
        cq.z(r[0]), cq.q(r[1]), cq.q(r[2]), cq.q(r[3]), cq.lst([cq.q(x) for x in vk]))


def trow_term(dep, idc, pos, side, star, vnh, vnl, shift):
    s = {"hv": "HV", "lv": "LV"}.get(side, "NoSide")
    return ("{| t_dep := %s; t_id := %s; t_pos := %s; t_side := %s; t_star := %s; t_vnh := %s; t_vnl := %s; t_shift := %s |}"
            % (cq.b(dep), cq.opt(idc, cq.z), cq.q(0 if pos is None else pos), s, cq.b(star), cq.q(vnh), cq.q(vnl), cq.q(shift)))


def vrow_term(dep, idc, pos, vks):
    return "{| v_dep := %s; v_id := %s; v_pos := %s; v_vk := %s |}" % (
        cq.b(dep), cq.opt(idc, cq.z), cq.q(pos), cq.lst([cq.q(x) for x in vks]))


def _nan(x):
    return x is None or (isinstance(x, float) and x != x)


def model_terms(desc):
    """the four model calls of one description"""
    cva = desc["cva"]
    tab2 = cq.lst([crow_term(r, 2) for r in desc["table"]])
    tab3 = cq.lst([crow_term(r, 6) for r in desc["table"]])
    rows2 = [trow_term(t["dep"], t["id"], t["pos"], t["side"], False, 110.0, 20.0, t["shift"] if cva else 0.0) for t in desc["t2"]]
    # _trafo_df_from_trafo3w: three blocks hv, mv, lv; tap arrays only on the block of the tap side; tap_side "hv" on the hv block
    # else "lv"; at star point the side is swapped (:1522-1532)
    rows3 = []
    for blk, vnl in (("hv", 110.0), ("mv", 20.0), ("lv", 10.0)):
        for t in desc["t3"]:
            on = t["side"] == blk
            side = None
            if on:
                side = "hv" if blk == "hv" else "lv"
                if t["star"]:
                    side = "lv" if blk == "hv" else "hv"
            sh = {"hv": 0.0, "mv": t["shift_mv"], "lv": t["shift_lv"]}[blk] if cva else 0.0
            rows3.append(trow_term(t["dep"], t["id"], t["pos"] if on else None, side, t["star"], 110.0, vnl, sh))
    v2 = [vrow_term(t["dep"], t["id"], t["pos"], [t["vk"], t["vkr"]]) for t in desc["t2"]]
    v3 = [vrow_term(t["dep"], t["id"], t["pos"], [t["vk"][0], t["vkr"][0], t["vk"][1], t["vkr"][1], t["vk"][2], t["vkr"][2]]) for t in desc["t3"]]
    def tapx(pos, side, kind, diff, pct, deg):
        return "{| x_pos := %s; x_side := %s; x_kind := %s; x_diff := %s; x_pct := %s; x_deg := %s |}" % (
            cq.q(pos), {"hv": "HV", "lv": "LV"}.get(side, "NoSide"), kind, cq.q(diff), cq.q(pct), cq.q(deg))
    # first tap changer: "Tabular" (no ordinary computation) for the dependent ones, else Ratio with tap_step_percent as built
    k1 = [tapx(t["pos"], t["side"], "KNone" if t["dep"] else "KComplex", t["pos"] - t.get("neutral", 0),
               t.get("step_percent", 0.0), t.get("step_degree", 0.0)) for t in desc["t2"]]
    taps2 = []
    for t in desc["t2"]:
        a2 = t.get("tap2")
        if not a2:
            taps2.append(tapx(0, None, "KNone", 0, 0, 0))      # all tap2_* columns NaN / None
        else:
            taps2.append(tapx(a2["pos"], a2["side"], "KIdeal" if a2["type"] == "Ideal" else "KComplex", a2["pos"] - a2["neutral"],
                              a2["pct"], a2["deg"]))
    has_pos2 = any(t.get("tap2") for t in desc["t2"])          # the tap2_* columns exist only when some transformer was created with them
    loop = "run_tap_loop %s @DEP2@ %s %s %s %s" % (cq.b(has_pos2), tab2, cq.lst(rows2), cq.lst(k1), cq.lst(taps2))
    return "OL [%s; run_tap true %s %s; run_vk %s %s; run_vk %s %s; %s]" % (
        loop.replace("@DEP2@", "false"), tab3, cq.lst(rows3), tab2, cq.lst(v2), tab3, cq.lst(v3), loop.replace("@DEP2@", "true"))


# ------------------------------------------------------------------ impl observation
def impl_observe(desc):
    """calls the real functions; returns the same shape as the model term"""
    from pandapower.build_branch import _calc_tap_from_dataframe, _get_vk_values_from_table, _trafo_df_from_trafo3w
    net0 = build(desc)
    net = copy.deepcopy(net0)
    conv = True
    try:
        pp.runpp(net, calculate_voltage_angles=desc["cva"], trafo_model="pi", numba=False)
    except Exception as e:
        conv = False
    ppc_tap = None
    if "_ppc" in net and net._ppc is not None and "branch" in net._ppc:
        from pandapower.pypower.idx_brch import TAP, SHIFT
        ppc_tap = net._ppc["branch"][:, [TAP, SHIFT]].real.copy()

    def fresh():
        net.trafo = net0.trafo.copy(deep=True)
        net.trafo3w = net0.trafo3w.copy(deep=True)

    def call(f):
        try:
            return f()
        except UserWarning:
            return cq.Err("UserWarning")

    def tap2():
        fresh()
        a, b_, c = _calc_tap_from_dataframe(net, net.trafo)
        return [[float(x), float(y), float(z)] for x, y, z in zip(a, b_, c)]

    def tap2x():
        # the same frame with a (non-standard) tap2_dependency_table column: pass "2" of the loop becomes tabular as well, keyed by
        # (id_characteristic_table, tap2_pos) and masked by tap_dependency_table - observed on the real function only, never in the oracle nets
        fresh()
        net.trafo["tap2_dependency_table"] = True
        a, b_, c = _calc_tap_from_dataframe(net, net.trafo)
        return [[float(x), float(y), float(z)] for x, y, z in zip(a, b_, c)]

    def tap3():
        fresh()
        if len(net.trafo3w) == 0:
            return []
        try:
            tdf = _trafo_df_from_trafo3w(net)
        except UserWarning as e:
            if "zero impedance" in str(e):    # raised by the 3W vk conversion (all vk looked up as the default 1), not by the tap code
                return "skip"
            raise
        fresh()   # _trafo_df_from_trafo3w looked vk up in place; the tap arrays in tdf are copies
        a, b_, c = _calc_tap_from_dataframe(net, tdf)
        return [[float(x), float(y), float(z)] for x, y, z in zip(a, b_, c)]

    def vk2():
        fresh()
        if not net.trafo.tap_dependency_table.any():
            return [[float(a), float(b_)] for a, b_ in zip(net.trafo.vk_percent, net.trafo.vkr_percent)]
        v = _get_vk_values_from_table(net.trafo, net.trafo_characteristic_table)
        return [[float(x[i]) for x in v] for i in range(len(net.trafo))]

    def vk3():
        fresh()
        if len(net.trafo3w) == 0:
            return []
        if not net.trafo3w.tap_dependency_table.any():
            return [[float(net.trafo3w[c].values[i]) for c in VK3] for i in range(len(net.trafo3w))]
        v = _get_vk_values_from_table(net.trafo3w, net.trafo_characteristic_table, "3W")
        return [[float(x[i]) for x in v] for i in range(len(net.trafo3w))]

    obs = [call(tap2), call(tap3), call(vk2), call(vk3), call(tap2x)]
    fresh()
    # ppc-level TAP/SHIFT of the real run (same quantities after _calc_nominal_ratio_from_dataframe)
    return obs, ppc_tap, conv


def close(a, b, tol=1e-9):
    if isinstance(a, cq.Err) or isinstance(b, cq.Err):
        return a == b
    if isinstance(a, list) or isinstance(b, list):
        return isinstance(a, list) and isinstance(b, list) and len(a) == len(b) and all(close(x, y, tol) for x, y in zip(a, b))
    a, b = float(a), float(b)
    if a != a or b != b:
        return a != a and b != b
    return abs(a - b) <= tol * max(1.0, abs(a), abs(b))


def fl(x):
    if isinstance(x, list):
        return [fl(i) for i in x]
    if isinstance(x, Fraction):
        return float(x)
    return x


# ------------------------------------------------------------------ guard G31 (python)
def groups(desc):
    """the lookup groups of the impl: lists of (id, pos) of the masked rows"""
    g = []
    for s in ("hv", "lv"):
        g.append([(t["id"], t["pos"]) for t in desc["t2"] if t["dep"] and t["side"] == s])
    g.append([(t["id"], t["pos"]) for t in desc["t2"] if t["dep"]])
    for s in ("hv", "lv"):
        rows = []
        for t in desc["t3"]:
            if not t["dep"]:
                continue
            side = "hv" if t["side"] == "hv" else "lv"
            if t["star"]:
                side = "lv" if side == "hv" else "hv"
            if side == s:
                rows.append((t["id"], t["pos"]))
        g.append(rows)
    g.append([(t["id"], t["pos"]) for t in desc["t3"] if t["dep"]])
    return g


def G31(desc):
    for g in groups(desc):
        for a in g:
            for b_ in g:
                if a[0] is not None and a[0] == b_[0] and a[1] != b_[1]:
                    return False
    return True


def shares(desc):
    for g in groups(desc):
        ids = [a[0] for a in g]
        if len(ids) != len(set(ids)):
            return True
    return False


def tab_unique(desc):
    keys = [(r[0], r[1]) for r in desc["table"]]
    return len(keys) == len(set(keys))


def own_row(desc, k, pos):
    for r in desc["table"]:
        if r[0] == k and r[1] == pos:
            return r
    return None


# ------------------------------------------------------------------ twin nets for the oracle
def private_twin(desc):
    """every table-dependent transformer gets a private copy of its characteristic under a fresh id"""
    table = [list(r) for r in desc["table"]]
    nid = 100
    t2, t3 = copy.deepcopy(desc["t2"]), copy.deepcopy(desc["t3"])
    for t in t2 + t3:
        if t["dep"] and t["id"] is not None:
            for r in desc["table"]:
                if r[0] == t["id"]:
                    table.append([nid] + list(r[1:]))
            t["id"] = nid
            nid += 1
    return table, t2, t3


def explicit_twin(desc):
    """2W transformers with an own row: values entered directly (no table); others keep a private characteristic"""
    table, t2, t3 = private_twin(desc)
    n = 0
    for t, t0 in zip(t2, desc["t2"]):
        if not t0["dep"]:
            continue
        r = own_row(desc, t0["id"], t0["pos"])
        if r is None:
            continue
        t["dep"] = False
        t["vk"], t["vkr"] = r[4], r[5]
        t["neutral"], t["pos"] = 0, 1
        t["step_percent"] = (Fraction(r[2]) - 1) * 100
        t["step_percent"] = float(t["step_percent"])
        t["step_degree"] = 0.0
        t["shift"] = t0["shift"] + (r[3] if t0["side"] == "hv" else -r[3])
        n += 1
    return table, t2, t3, n


RES = {"res_bus": ["vm_pu", "va_degree"],
       "res_trafo": ["p_hv_mw", "q_hv_mvar", "p_lv_mw", "q_lv_mvar", "i_hv_ka", "i_lv_ka", "loading_percent"],
       "res_trafo3w": ["p_hv_mw", "q_hv_mvar", "p_mv_mw", "q_mv_mvar", "p_lv_mw", "q_lv_mvar", "i_hv_ka", "loading_percent"]}


def run_pf(net, cva):
    try:
        pp.runpp(net, calculate_voltage_angles=cva, numba=False, tolerance_mva=1e-9, max_iteration=30)
        return {t: net[t][cols].values.copy() for t, cols in RES.items() if len(net[t])}
    except Exception as e:
        return type(e).__name__


def res_diff(a, b, tol=1e-6):
    if isinstance(a, str) or isinstance(b, str):
        return None if (isinstance(a, str) and isinstance(b, str)) else "one run fails (%s) and the other does not (%s)" % (
            a if isinstance(a, str) else "ok", b if isinstance(b, str) else "ok")
    for t in a:
        d = np.abs(a[t] - b[t])
        with np.errstate(invalid="ignore"):
            bad = ~((d <= tol * np.maximum(1.0, np.abs(a[t]))) | (np.isnan(a[t]) & np.isnan(b[t])))
        if bad.any():
            i, j = np.argwhere(bad)[0]
            return "%s.%s row %d: %.9g vs %.9g" % (t, RES[t][j], i, a[t][i, j], b[t][i, j])
    return None


def oracle(ctx, desc):
    cva = desc["cva"] or any(r[3] != 0 for r in desc["table"])
    base = run_pf(build(desc), cva)
    tb, t2, t3 = private_twin(desc)
    priv = run_pf(build(desc, tb, t2, t3), cva)
    kind = KIND
    d = res_diff(base, priv)
    if d is not None:
        ctx.violation(kind, "shared characteristic table vs private copy per transformer: " + d, desc)
        ctx.count("oracle_private_differs")
    if isinstance(base, str):
        ctx.count("oracle_pf_failed")
    tb, t2e, t3e, n = explicit_twin(desc)
    if n and tab_unique(desc):
        ex = run_pf(build(desc, tb, t2e, t3e), True if cva else False)
        # with calculate_voltage_angles=False the impl still adds the table angle to SHIFT but drops shift_degree;
        # the explicit twin carries the angle in shift_degree, so compare only when angles are calculated or all angles are 0
        if cva:
            d2 = res_diff(base, ex)
            if d2 is not None:
                ctx.violation(kind, "table-dependent transformers vs the same transformers with the own-row values entered directly: " + d2, desc)
                ctx.count("oracle_explicit_differs")
            ctx.count("oracle_explicit_compared")


# ------------------------------------------------------------------ run
def _one(ctx, desc, terms, pend, sample=False):
    obs, ppc_tap, conv = impl_observe(desc)
    terms.append(model_terms(desc))
    pend.append((desc, obs, ppc_tap if conv else None))
    ctx.case(desc, nontrivial=shares(desc), sample=({"input": desc, "impl": fl(obs)} if sample else None))
    ctx.count("G31_%s" % G31(desc))
    ctx.count("n_dep_%d" % sum(1 for t in desc["t2"] + desc["t3"] if t["dep"]))
    ctx.count("shares_id_%s" % shares(desc))
    ctx.count("tap2_on_dependent_trafo_%s" % any(t["dep"] and t.get("tap2") for t in desc["t2"]))
    ctx.count("non_dependent_trafo_keeps_shared_id_%s" % any((not t["dep"]) and t["id"] is not None and any(u["dep"] and u["id"] == t["id"] for u in desc["t2"] + desc["t3"]) for t in desc["t2"] + desc["t3"]))
    if not conv:
        ctx.count("runpp_not_converged")
    oracle(ctx, desc)


def _compare(ctx, pend, model):
    from pandapower.pypower.idx_brch import TAP, SHIFT
    for (desc, obs, ppc_tap), mod in zip(pend, model):
        ctx.corr_checked += 1
        names = ["_calc_tap_from_dataframe(2W, both passes)", "_calc_tap_from_dataframe(3W)", "_get_vk_values_from_table(2W)",
                 "_get_vk_values_from_table(3W)", "_calc_tap_from_dataframe(2W frame with a tap2_dependency_table column)"]
        for nm, o, m in zip(names, obs, mod):
            if isinstance(o, str) and o == "skip":
                ctx.count("tap3_skipped_zero_impedance")
                continue
            if not close(o, fl(m)):
                ctx.disagreement("%s: impl=%s model=%s" % (nm, json.dumps(o, default=str)[:300], json.dumps(fl(m), default=str)[:300]), desc)
                break
        else:
            # ppc level: TAP = (vnh'/vnl') / (110/vn_lv_bus), SHIFT = shift  (pi model, first trafo rows then 3W blocks)
            if ppc_tap is not None and not isinstance(mod[0], cq.Err) and not isinstance(mod[1], cq.Err):
                exp = []
                for (vnh, vnl, sh) in mod[0]:
                    exp.append([float(vnh / vnl / Fraction(110, 20)), float(sh)])
                n3 = len(desc["t3"])
                for i, (vnh, vnl, sh) in enumerate(mod[1]):
                    blk = i // n3
                    nom = [Fraction(1), Fraction(110, 20), Fraction(110, 10)][blk]
                    exp.append([float(vnh / vnl / nom), float(sh)])
                got = ppc_tap[:len(exp)].tolist()
                if not close(got, exp):
                    ctx.disagreement("net._ppc branch TAP/SHIFT: impl=%s model=%s" % (got, exp), desc)


def run(ctx):
    rng = ctx.rng
    terms, pend = [], []
    for f in sorted(glob.glob(os.path.join(cq.VERIF, "corpus", "C31", "*.json"))):
        desc = json.load(open(f))["desc"]
        _one(ctx, desc, terms, pend, sample=True)
        ctx.count("corpus")
    for k in range(ctx.n(130, 2000)):
        desc = gen_desc(rng, small=(k % 10 == 0))
        _one(ctx, desc, terms, pend, sample=(k < 2))
    model = ctx.coq_eval("c31", "Base.QN C31.Model C31.ModelLoop", terms, shard=45, timeout=900)
    _compare(ctx, pend, model)


def replay(ctx, rec):
    desc = rec["case"]
    terms, pend = [], []
    _one(ctx, desc, terms, pend, sample=True)
    model = ctx.coq_eval("c31", "Base.QN C31.Model C31.ModelLoop", terms, shard=45, timeout=900)
    _compare(ctx, pend, model)
