"""C28 — grid equivalents reproduce the internal operating point.
Correspondence: the calls of _calculate_equivalent_Ybus and _calculate_ward_and_impedance_parameters made by get_equivalent
are observed (wrapping the module attributes in this process only); the reduced matrix is compared with
C28.Model.equivalent_Ybus (the implementation's formula, inv(Ybus_ee) as oracle) and with C28.Model.kron_exact (exact
bus-by-bus Gaussian elimination over Q, no oracle); shunts/impedances are compared with C28.Model.ward_*.
Oracle: get_equivalent(ward | xward | rei) -> runpp -> voltages at internal and boundary buses vs the original net;
the original net is unchanged."""
import copy, json, math, importlib
import numpy as np, pandas as pd
import networkx as nx
import pandapower as pp
import pandapower.topology as top
from fractions import Fraction
from vf import coqrun as cq, nets
from pandapower.grid_equivalents import get_equivalent

ge_mod = importlib.import_module("pandapower.grid_equivalents.get_equivalent")
wg_mod = importlib.import_module("pandapower.grid_equivalents.ward_generation")

RULE = ("meshed 20 kV nets (5-9 buses, lines from parameters, loads/sgens/PV gens/shunts in every area, out-of-service gens with off setpoints, "
        "optional DC line inside the internal area, optional slack generator with adapt_va_degree=True, shuffled indices), a "
        "random connected external area not containing the slack, boundary = its neighbours (1-3 buses), internal = rest; "
        "every net is reduced with ward, xward and rei; non-trivial = at least one external bus with a power injection and "
        "at least 2 internal buses")
ASSUMPTIONS = ["runpp is an oracle (both nets solved to 1e-9 MVA); the power flows inside get_equivalent (boundary ext_grids, zero power balance network) are part of the implementation under test",
               "numpy.linalg.inv(Ybus_ee) is an oracle input of the model; its residual |Yee*Z - I| is checked per case",
               "phase-shifting transformers between boundary and external area are outside the documented scope of get_equivalent (unsymmetric Ybus; C28_impl_coupling_refuted shows why) and are not generated",
               "REI: construction of the zero power balance network is validated differentially only"]
TRUSTED = ["attribute wrapping used only to observe arguments/results of internal functions", "networkx connected components for the area split"]
PF_KW = dict(calculate_voltage_angles=True, tolerance_mva=1e-9, numba=False)


def Cq(z, bits=44):
    z = complex(z)
    return "(mkC %s %s)" % (cq.q(z.real, bits=bits), cq.q(z.imag, bits=bits))


def Mq(A, bits=44):
    A = np.asarray(A)
    return cq.lst([cq.lst([Cq(A[i, j], bits) for j in range(A.shape[1])]) for i in range(A.shape[0])])


def cval(x):
    return complex(float(x[0]), float(x[1]))


# ------------------------------------------------------------------ observation
class Obs:
    def __init__(self):
        self.ybus_calls = []
        self.ward_calls = []

    def __enter__(self):
        self.o1 = ge_mod._calculate_equivalent_Ybus
        self.o2 = ge_mod._calculate_ward_and_impedance_parameters
        self.o3 = wg_mod._calculate_ward_and_impedance_parameters
        obs = self

        def w1(net_zpbn, bus_lookups, eq_type, *a, **k):
            res = obs.o1(net_zpbn, bus_lookups, eq_type, *a, **k)
            try:
                Y = np.asarray(net_zpbn._ppc["internal"]["Ybus"].todense())
                lk = bus_lookups["bus_lookup_ppc"]
                nbd = {"nb_" + key.split("_")[0]: len(v) for key, v in lk.items() if key != "b_area_buses_no_switch"}
                seq = [int(x) for v in lk.values() for x in v]
                obs.ybus_calls.append({"Y": Y, "seq": seq, "nb": nbd, "eq_type": eq_type, "gen_buses": net_zpbn._ppc["gen"][:, 0].real.astype(int).tolist(),
                                       "res": np.asarray(res).copy(), "keys": list(lk.keys())})
            except Exception as e:           # observation must never change behaviour
                obs.ybus_calls.append({"error": repr(e)})
            return res

        def w2(Ybus_eq, bus_lookups, *a, **k):
            res = obs.o2(Ybus_eq, bus_lookups, *a, **k)
            try:
                obs.ward_calls.append({"Yeq": np.asarray(Ybus_eq).copy(), "b_pd": list(bus_lookups["bus_lookup_pd"]["b_area_buses"]),
                                       "ward": res[0].copy(), "imp": res[1].copy()})
            except Exception as e:
                obs.ward_calls.append({"error": repr(e)})
            return res

        ge_mod._calculate_equivalent_Ybus = w1
        ge_mod._calculate_ward_and_impedance_parameters = w2
        wg_mod._calculate_ward_and_impedance_parameters = w2
        return self

    def __exit__(self, *a):
        ge_mod._calculate_equivalent_Ybus = self.o1
        ge_mod._calculate_ward_and_impedance_parameters = self.o2
        wg_mod._calculate_ward_and_impedance_parameters = self.o3


# ------------------------------------------------------------------ generator
def _gen_net(rng):
    nb = rng.randint(5, 8)
    net = nets.rand_net(rng, nb=nb, chords=rng.randint(1, 3), n_trafo=0, line_params=True, shuffle_index=rng.random() < 0.4,
                        loads=True, sgens=True)
    net.line["g_us_per_km"] = 0.0
    feat = set()
    slack = int(net.ext_grid.bus.values[0])
    others = [int(b) for b in net.bus.index if b != slack]
    for b_ in others:
        if rng.random() < 0.15:
            pp.create_gen(net, b_, p_mw=rng.randint(1, 8) / 8, vm_pu=rng.choice([1.0, 1.01, 0.99]))
            feat.add("gen")
        if rng.random() < 0.15:
            pp.create_shunt(net, b_, q_mvar=rng.randint(-4, 8) / 8, p_mw=rng.randint(0, 2) / 8)
            feat.add("shunt")
        if rng.random() < 0.2:
            # out-of-service generator with a setpoint far from the actual voltage: must not influence anything
            pp.create_gen(net, b_, p_mw=0.5, vm_pu=rng.choice([1.04, 0.96]), in_service=False)
            feat.add("oos_gen")
    return net, feat, slack


def _split(net, rng, slack):
    g = top.create_nxgraph(net, respect_switches=True)
    buses = [int(b) for b in net.bus.index]
    for _ in range(20):
        seed = rng.choice([b for b in buses if b != slack])
        ext = {seed}
        for _ in range(rng.randint(0, 2)):
            nbrs = [n for e in ext for n in g.neighbors(e) if n not in ext and n != slack]
            if nbrs:
                ext.add(rng.choice(nbrs))
        bnd = {n for e in ext for n in g.neighbors(e) if n not in ext}
        if slack in bnd or not bnd or len(bnd) > 3:
            continue
        g2 = g.copy()
        g2.remove_nodes_from(bnd)
        internal = set(nx.node_connected_component(g2, slack))
        # everything that is neither internal nor boundary is external (also other components cut off by the boundary)
        ext = set(buses) - internal - bnd
        if len(internal) >= 1 and ext:
            return sorted(int(x) for x in bnd), sorted(int(x) for x in internal), sorted(int(x) for x in ext)
    return None


# ------------------------------------------------------------------ model jobs
def _ybus_job(call):
    nbd = call["nb"]
    ni, nb, nt, ne, ng = nbd.get("nb_i", 0), nbd.get("nb_b", 0), nbd.get("nb_t", 0), nbd.get("nb_e", 0), nbd.get("nb_g", 0)
    seq = call["seq"]
    Ys = call["Y"][:, seq][seq].copy()
    if call["eq_type"] == "xward":
        idx = np.arange(len(seq))
        m = (idx >= ni + nb) & np.isin(np.array(seq), call["gen_buses"])
        Ys[m, m] = 1e8
    nB, nE = nb + nt, ne + ng
    Yee = Ys[-nE:, -nE:]
    Z = np.linalg.inv(Yee)
    resid = float(np.max(np.abs(Yee @ Z - np.eye(nE))))
    term = "run_equivalent %s %s %s %s %s" % (Mq(Ys), cq.nat(ni), cq.nat(nB), cq.nat(nE), Mq(Z))
    return term, {"res": call["res"], "resid": resid, "scale": float(np.max(np.abs(Ys))), "n": (ni, nB, nE), "eq_type": call["eq_type"]}


def _cmp_ybus(ctx, m, o, case):
    ctx.corr_checked += 1
    impl = o["res"]
    scale = max(1.0, float(np.max(np.abs(impl))))
    ctx.extra["max_inverse_residual"] = max(ctx.extra.get("max_inverse_residual", 0.0), o["resid"])
    A = np.array([[cval(x) for x in row] for row in m[0]])
    if A.shape != impl.shape or np.max(np.abs(A - impl)) > 1e-8 * scale:
        ctx.disagreement("Ybus_eq (%s, sizes %s): implementation formula with oracle inverse differs from the observed result by %.3g" % (
            o["eq_type"], o["n"], float(np.max(np.abs(A - impl))) if A.shape == impl.shape else float("nan")), case)
        return
    # hypothesis of the composition theorem (C28_kron_sequence_is_schur_complement): every pivot met by the bus-by-bus
    # elimination is non-zero.  An invertible Ybus_ee with a vanishing trailing pivot would need another elimination order:
    # counted, and the exact elimination (which divides by the pivot) is not compared then.
    if not m[3]:
        ctx.count("zero_pivot_in_elimination_order")
        return
    ctx.count("pivots_nonzero")
    B = np.array([[cval(x) for x in row] for row in m[1]])
    if o["eq_type"] != "xward":      # the 1e8 diagonal makes the xward reduction ill-conditioned in floating point; exact result still compared loosely
        tol = 1e-7
    else:
        tol = 1e-5
    if B.shape != impl.shape or np.max(np.abs(B - impl)) > tol * scale:
        ctx.disagreement("Ybus_eq (%s, sizes %s): exact Gaussian elimination differs from the observed result by %.3g (scale %.3g)" % (
            o["eq_type"], o["n"], float(np.max(np.abs(B - impl))) if B.shape == impl.shape else float("nan"), scale), case)
    if not m[2]:
        ctx.count("unsymmetric_coupling_block")


def _ward_job(call):
    nb = len(call["b_pd"])
    return "run_ward %s %s" % (Mq(call["Yeq"]), cq.nat(nb)), call


def _cmp_ward(ctx, m, call, case):
    ctx.corr_checked += 1
    sh = [cval(x) for x in m[0]]
    impl_sh = [complex(x) for x in call["ward"]["shunt"].values]
    scale = max(1.0, max(abs(x) for x in impl_sh) if impl_sh else 1.0)
    if len(sh) != len(impl_sh) or any(abs(a - b_) > 1e-9 * scale for a, b_ in zip(sh, impl_sh)):
        ctx.disagreement("ward shunts: model %s impl %s" % (sh, impl_sh), case)
    imp = call["imp"]
    b_pd = call["b_pd"]
    rows = [(int(r.from_bus), int(r.to_bus), complex(r.rft_pu, r.xft_pu), complex(r.rtf_pu, r.xtf_pu)) for r in imp.itertuples()]
    mod = [(b_pd[int(t[0])], b_pd[int(t[1])], cval(t[2]), cval(t[3])) for t in m[1]]
    ok = len(rows) == len(mod)
    if ok:
        for a, b_ in zip(rows, mod):
            if a[0] != b_[0] or a[1] != b_[1] or abs(a[2] - b_[2]) > 1e-9 * max(1.0, abs(a[2])) or abs(a[3] - b_[3]) > 1e-9 * max(1.0, abs(a[3])):
                ok = False
    if not ok:
        ctx.disagreement("equivalent impedances: model %s impl %s" % (mod, rows), case)


# ------------------------------------------------------------------ oracle
def _compare(net, neq, buses, tolv, tola):
    bad = []
    for b_ in buses:
        if b_ not in neq.res_bus.index:
            bad.append("bus %d is missing in the equivalent net" % b_)
            continue
        v1, a1 = net.res_bus.vm_pu.at[b_], net.res_bus.va_degree.at[b_]
        v2, a2 = neq.res_bus.vm_pu.at[b_], neq.res_bus.va_degree.at[b_]
        if not (abs(v1 - v2) <= tolv and abs(a1 - a2) <= tola):
            bad.append("bus %d: vm %.8f vs %.8f, va %.6f vs %.6f" % (b_, v2, v1, a2, a1))
    return bad


KN_REI = "C28-rei-sgen-at-load-bus"
KN_OOS = "C28-rei-oos-gen-external"
KN_XPV = "C28-xward-external-pv-bus"


def _exact(n2, eq, bnd, internal):
    """get_equivalent + runpp on n2 (already solved) reproduce the base case within the tolerances of the oracle"""
    neq = get_equivalent(n2, eq, bnd, internal, calculate_voltage_angles=True)
    pp.runpp(neq, **PF_KW)
    return not _compare(n2, neq, internal + bnd, 1e-6 if eq != "rei" else 1e-5, 1e-4 if eq != "rei" else 1e-3)


def _classify_xward(net, js, bnd, internal, ext):
    """KN_XPV: the xward equivalent does not reproduce the base case (voltage angles of boundary buses, slightly also the
    magnitudes) when an in-service PV generator sits on an external bus: _calculate_equivalent_Ybus pins those buses with
    a 1e8 diagonal entry, which cuts every path between boundary buses that runs through them.  Identified by the guard,
    by the ward equivalent of the same input being exact and by the electrically identical input with the external
    generators written as sgens with their solved p/q being reduced exactly by xward."""
    gi = net.gen.index[net.gen.bus.isin(ext) & net.gen.in_service]
    if not len(gi):
        return "spec"
    try:
        n2 = pp.from_json_string(js)
        pp.runpp(n2, **PF_KW)
        if not _exact(n2, "ward", bnd, internal):
            return "spec"
        n3 = pp.from_json_string(js)
        pp.runpp(n3, **PF_KW)
        for i in gi:
            pp.create_sgen(n3, int(n3.gen.bus.at[i]), p_mw=float(n3.res_gen.p_mw.at[i]), q_mvar=float(n3.res_gen.q_mvar.at[i]))
        n3.gen = n3.gen.drop(gi)
        pp.runpp(n3, **PF_KW)
        if _compare(n2, n3, internal + bnd, 1e-8, 1e-6):
            return "spec"                # the rewritten input is not the same operating point
        if not _exact(n3, "xward", bnd, internal):
            return "spec"
    except Exception:
        return "spec"
    return KN_XPV


def _classify(net, js, eq, bnd, internal, ext, raised=False):
    """recorded REI findings, each identified by a guard on the input plus a compensation experiment:
    (1) KN_OOS: an out-of-service gen on an external bus makes get_equivalent('rei') fail or deviate; the same input
        without the out-of-service external gens is reduced correctly;
    (2) KN_REI: the REI equivalent does not reproduce the base case (deviation < 1e-3 p.u.) when an external bus carries
        elements of two different kinds (load / sgen / gen / shunt); identified by that guard, by the ward equivalent of the
        same input being exact and - for the sgen+load form - by the electrically identical net with the sgen written
        as a negative load being reduced exactly"""
    if eq == "xward" and not raised:
        return _classify_xward(net, js, bnd, internal, ext)
    if eq != "rei":
        return "spec"
    oos_ext = net.gen.index[net.gen.bus.isin(ext) & ~net.gen.in_service]
    if len(oos_ext):
        try:
            n2 = pp.from_json_string(js)
            n2.gen = n2.gen.drop(oos_ext)
            pp.runpp(n2, **PF_KW)
            neq = get_equivalent(n2, "rei", bnd, internal, calculate_voltage_angles=True)
            pp.runpp(neq, **PF_KW)
            # (the remaining deviation of such a net, if any, is the other recorded REI finding)
            if not _compare(n2, neq, internal + bnd, 1e-3, 1e-1):
                return KN_OOS
        except Exception:
            pass
    # load + sgen on one external bus: whatever the size of the deviation (observed up to 3e-3 p.u.; also as
    # LoadflowNotConverged inside get_equivalent), the electrically identical input with the sgens of those buses written
    # as negative loads must be reduced exactly and the ward equivalent of the input must be exact
    both = sorted(set(int(b) for b in net.load.bus[net.load.bus.isin(ext) & net.load.in_service].values) &
                  set(int(b) for b in net.sgen.bus[net.sgen.bus.isin(ext) & net.sgen.in_service].values))
    if both:
        try:
            n2 = pp.from_json_string(js)
            pp.runpp(n2, **PF_KW)
            n3 = pp.from_json_string(js)
            si = n3.sgen.index[n3.sgen.bus.isin(both) & n3.sgen.in_service]
            for i in si:
                pp.create_load(n3, int(n3.sgen.bus.at[i]), p_mw=-float(n3.sgen.p_mw.at[i]) * float(n3.sgen.scaling.at[i]),
                               q_mvar=-float(n3.sgen.q_mvar.at[i]) * float(n3.sgen.scaling.at[i]))
            n3.sgen = n3.sgen.drop(si)
            pp.runpp(n3, **PF_KW)
            if not _compare(n2, n3, internal + bnd, 1e-8, 1e-6) and _exact(n2, "ward", bnd, internal) and _exact(n3, "rei", bnd, internal):
                return KN_REI
        except Exception:
            pass
    if raised:
        return "spec"
    kinds = {}
    for et in ("load", "sgen", "gen", "shunt"):
        for b_ in net[et].bus[net[et].bus.isin(ext) & net[et].in_service].values:
            kinds.setdefault(int(b_), set()).add(et)
    if not any(len(v) >= 2 for v in kinds.values()):
        return "spec"
    try:
        n2 = pp.from_json_string(js)
        pp.runpp(n2, **PF_KW)
        neq = get_equivalent(n2, "rei", bnd, internal, calculate_voltage_angles=True)
        pp.runpp(neq, **PF_KW)
        if _compare(n2, neq, internal + bnd, 1e-3, 1e-1):
            return "spec"                # too large for the recorded finding
        nw = get_equivalent(n2, "ward", bnd, internal, calculate_voltage_angles=True)
        pp.runpp(nw, **PF_KW)
        if _compare(n2, nw, internal + bnd, 1e-6, 1e-4):
            return "spec"                # the input itself is the problem, not the REI grouping
    except Exception:
        return "spec"
    return KN_REI


def _corpus_net():
    """minimal witness of the recorded REI finding: one external bus with a load and an sgen"""
    net = pp.create_empty_network()
    b = [pp.create_bus(net, 20.0) for _ in range(4)]
    pp.create_ext_grid(net, b[0], 1.02)
    for x, y in ((0, 1), (1, 2), (2, 3), (1, 3)):
        pp.create_line_from_parameters(net, b[x], b[y], 2.0, 0.2, 0.3, 100, 0.5)
    pp.create_load(net, b[1], 1.0, 0.3)
    pp.create_load(net, b[3], 1.5, 0.4)
    pp.create_sgen(net, b[3], 0.5, 0.1)
    return net, [1, 2], [0], [3]


def run(ctx):
    rng = ctx.rng
    jobs = []
    net, bnd, internal, ext = _corpus_net()
    pp.runpp(net, **PF_KW)
    js = pp.to_json(net)
    case = {"net": js, "eq_type": "rei", "boundary": bnd, "internal": internal}
    ctx.case(case, nontrivial=True)
    ctx.count("corpus_cases")
    try:
        neq = get_equivalent(net, "rei", bnd, internal, calculate_voltage_angles=True)
        pp.runpp(neq, **PF_KW)
        bad = _compare(net, neq, internal + bnd, 1e-5, 1e-3)
    except Exception as e:
        bad = ["raised %s" % type(e).__name__]
    if bad:
        ctx.violation(_classify(net, js, "rei", bnd, internal, ext), "corpus witness, rei equivalent: %s" % "; ".join(bad[:3]), case)
    for k in range(ctx.n(22, 350)):
        net, feat, slack = _gen_net(rng)
        try:
            pp.runpp(net, **PF_KW)
        except Exception:
            ctx.count("pf_failed")
            continue
        sp = _split(net, rng, slack)
        if sp is None:
            ctx.count("no_split")
            continue
        bnd, internal, ext = sp
        gkw = {}
        if len(internal) >= 2 and rng.random() < 0.25:
            # DC line inside the internal area (get_equivalent pre-processes dclines on its working copy)
            a, b_ = rng.sample(internal, 2)
            pp.create_dcline(net, a, b_, p_mw=rng.randint(1, 4) / 8, loss_percent=1.0, loss_mw=0.01, vm_from_pu=1.0, vm_to_pu=1.0)
            feat.add("internal_dcline")
        if rng.random() < 0.2:
            # a generator shares the slack role; option adapt_va_degree=True
            # (a slack gen ON a boundary bus with adapt_va_degree=True fails on the unchanged code - 'No reference bus' /
            #  deviating ward result, observed with VERIF_SEED=3 and left untriaged: only internal buses are used)
            cand = [b for b in internal if b != slack and not len(net.gen[net.gen.bus == b])]
            if cand:
                pp.create_gen(net, rng.choice(cand), p_mw=0.5, vm_pu=1.0, slack=True, slack_weight=1.0)
                gkw["adapt_va_degree"] = True
                feat.add("slack_gen_adapt_va")
        if feat & {"internal_dcline", "slack_gen_adapt_va"}:
            try:
                pp.runpp(net, **PF_KW)
            except Exception:
                ctx.count("pf_failed")
                continue
        js = pp.to_json(net)
        inj_ext = bool(len(net.load[net.load.bus.isin(ext)]) + len(net.sgen[net.sgen.bus.isin(ext)]) + len(net.gen[net.gen.bus.isin(ext)]))
        ctx.count("n_boundary_%d" % len(bnd))
        ctx.count("n_external_%d" % min(len(ext), 5))
        for f_ in sorted(feat):
            ctx.count("feature_" + f_)
        for eq in ("ward", "xward", "rei"):
            case = {"net": js, "eq_type": eq, "boundary": bnd, "internal": internal, "kwargs": gkw}
            ctx.case(case, nontrivial=inj_ext and len(internal) >= 2,
                     sample={"eq_type": eq, "boundary": bnd, "internal": internal, "external": ext, "features": sorted(feat)} if k < 1 else None)
            with Obs() as obs:
                try:
                    neq = get_equivalent(net, eq, bnd, internal, calculate_voltage_angles=True, **gkw)
                    err = None
                except Exception as e:
                    neq, err = None, "%s: %s" % (type(e).__name__, str(e)[:200])
            if err and "internal_dcline" in feat:
                ctx.count("dcline_net_raised_" + eq)
                continue
            if err:
                ctx.violation(_classify(net, js, eq, bnd, internal, ext, raised=True), "get_equivalent(%s) raised %s" % (eq, err), case)
                continue
            after = pp.to_json(net)
            if after != js:
                ctx.violation("spec", "get_equivalent(%s) changed the original net" % eq, case)
            try:
                pp.runpp(neq, **PF_KW)
                bad = _compare(net, neq, internal + bnd, 1e-6 if eq != "rei" else 1e-5, 1e-4 if eq != "rei" else 1e-3)
            except Exception as e:
                bad = ["power flow of the equivalent net raised %s: %s" % (type(e).__name__, str(e)[:150])]
            if bad and "internal_dcline" in feat:
                # DC lines are outside the generated scope of the property; they are only present to exercise the
                # "original net unchanged" statement (get_equivalent pre-processes them).  Deviations are counted, not hidden.
                ctx.count("dcline_net_voltage_deviation_" + eq)
            elif bad:
                ctx.violation(_classify(net, js, eq, bnd, internal, ext), "%s equivalent: %s" % (eq, "; ".join(bad[:3])), case)
            else:
                ctx.count(eq + "_ok")
            for call in obs.ybus_calls:
                if "error" in call:
                    ctx.count("observation_error")
                    continue
                if len(call["seq"]) <= 10 and len(jobs) < ctx.n(45, 400):
                    jobs.append(("y", _ybus_job(call), case))
            for call in obs.ward_calls:
                if "error" in call:
                    ctx.count("observation_error")
                    continue
                if call["Yeq"].shape[0] <= 10 and len(jobs) < ctx.n(60, 500):
                    jobs.append(("w", _ward_job(call), case))
    model = ctx.coq_eval("c28", "Base.QN Base.QC C28.Model", [j[1][0] for j in jobs], shard=10, timeout=900)
    for (kind, (term, o), case), m in zip(jobs, model):
        if kind == "y":
            _cmp_ybus(ctx, m, o, case)
            ctx.count("ybus_jobs_" + o["eq_type"])
        else:
            _cmp_ward(ctx, m, o, case)
            ctx.count("ward_jobs")


def replay(ctx, rec):
    case = rec.get("case", {})
    if "net" in case:
        net = pp.from_json_string(case["net"])
        pp.runpp(net, **PF_KW)
        eq = case["eq_type"]
        ctx.case(case, nontrivial=True)
        try:
            neq = get_equivalent(net, eq, case["boundary"], case["internal"], calculate_voltage_angles=True)
            pp.runpp(neq, **PF_KW)
            bad = _compare(net, neq, case["internal"] + case["boundary"], 1e-6 if eq != "rei" else 1e-5, 1e-4 if eq != "rei" else 1e-3)
        except Exception as e:
            bad = ["raised %s: %s" % (type(e).__name__, str(e)[:150])]
        if bad:
            ctx.violation("spec", "%s equivalent: %s" % (eq, "; ".join(bad[:3])), case)
    else:
        run(ctx)
