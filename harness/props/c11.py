"""C11 — three-phase power flow vs symmetric power flow.
Correspondence: sequence_to_phase / phase_to_sequence / SVabc_from_SV012 on generated complex arrays, the line result
writer _get_line_results_3ph driven white-box with chosen sequence voltages/currents, and the per-phase element/bus sums
of real runpp_3ph runs, all vs C11.Model evaluated in the exact field Q(sqrt3, j).
Oracle: runpp_3ph vs runpp on generated symmetric nets (equal phase magnitudes = symmetric result, angles 0/-120/+120,
per-phase powers = one third); on asymmetric nets per-phase sums of every element and per-phase nodal power balance."""
import copy, glob, json, math, os
import numpy as np, pandas as pd
import pandapower as pp
from fractions import Fraction
from vf import coqrun as cq
from pandapower.pf.runpp_3ph import runpp_3ph
from pandapower import auxiliary as aux
from pandapower.results_branch import _get_line_results_3ph
from pandapower.pypower import idx_brch as IB, idx_bus as IBUS

RULE = ("(a) 50 complex triples through sequence_to_phase/phase_to_sequence, 25 (S012,V012) arrays incl. zero voltages "
        "through SVabc_from_SV012; (b) 8 white-box calls of _get_line_results_3ph with chosen sequence quantities; "
        "(c) generated nets (3-6 MV buses, lines with zero-sequence data, 0-1 transformer with vector group Dyn/YNyn/Yzn, "
        "rated lv voltage 20/21 kV and hv/lv taps, buses fused by closed bus-bus switches with loads on both, symmetric loads/sgens with scaling and out-of-service rows; in half of the cases additional asymmetric loads/sgens): "
        "transformer data drawn from grids (vk/vkr, vk0/vkr0 incl. 0 = fall back to the positive sequence, pfe/i0 incl. the clamped case i0*sn < pfe and 0/0, mag0_percent, mag0_rx, si0_hv_partial, parallel, leakage ratios); "
        "symmetric nets carry an impedance element in 40 % of the cases (half of them with shunt part); every line/trafo/impedance row of the pf_3ph and pf ppc "
        "and every zero-sequence trafo row + its makeYbus two-port is compared with the Coq model; "
        "symmetric nets are compared with runpp, asymmetric ones are checked for per-phase sums and per-phase nodal balance; "
        "non-trivial = the three-phase power flow converged on a net with at least 3 buses")
ASSUMPTIONS = ["convergence of the sequence iteration of runpp_3ph (outer loop + Newton-Raphson) is not proved; non-convergence of a generated case is counted, not a violation of this property",
               "zero-sequence models of lines, ext_grids (except the current bookkeeping) and impedance elements, the load scaling by baseMVA in runpp_3ph and the transformer result writers are validated differentially only",
               "transformer tap changers: type Ratio with tap_step_degree 0/NaN, no tap dependency table; one transformer per vector group (the vk0 = 0 fallback of pd2ppc_zero.py is group-wise)",
               "nodes with an impedance element are left out of the per-phase nodal balance (runpp_3ph writes no res_impedance_3ph)",
               "the implementation's float a = exp(j*120deg) approximates the exact element of Q(sqrt3, j) used by the model to 1e-16"]
TRUSTED = ["numpy matmul/abs/angle", "runpp as the symmetric reference", "float sqrt / exp(j*shift) values passed to the model as oracle inputs (sqrt checked against the model arguments to 1e-9)"]
S3 = math.sqrt(3.0)
PF_KW = dict(calculate_voltage_angles=True, tolerance_mva=1e-9, numba=False)
KN_EG = "C11-extgrid-zero-seq-admittance"
KN_IMP = "C11-impedance-shunt-3ph-base"
# False = the code as it is (build_branch.py:1027-1030 multiplies the shunt admittances of impedance elements by sn_factor);
# set to True when .cache/fixes/C11-impedance-shunt-3ph-base.diff is applied to /repo (and delete known_findings.d/C11.json)
IMPEDANCE_SHUNT_REPAIRED = True
IMP_SHUNT_COLS = ("gf_pu", "bf_pu", "gt_pu", "bt_pu")


def Q(x):
    return cq.q(float(x), bits=40)


def Cq(z):
    z = complex(z)
    return "(mkC %s %s)" % (Q(z.real), Q(z.imag))


def C3(t):
    return "(%s, %s, %s)" % tuple(Cq(z) for z in t)


def kval(k):
    """[k1, ks, kj, ksj] -> complex float"""
    return complex(float(k[0]) + float(k[1]) * S3, float(k[2]) + float(k[3]) * S3)


def k3val(t):
    return [kval(k) for k in t]


def cclose(a, b, tol=1e-9):
    return abs(complex(a) - complex(b)) <= tol * max(1.0, abs(a), abs(b))


def rnd_c(rng, zero_p=0.0):
    if rng.random() < zero_p:
        return 0j
    return complex(rng.randint(-64, 64) / 32, rng.randint(-64, 64) / 32)


# ------------------------------------------------------------------ (a) transformations
def _transform_cases(ctx, rng):
    jobs = []
    for k in range(ctx.n(40, 1200)):
        x = [rnd_c(rng, 0.15) for _ in range(3)]
        if rng.random() < 0.25:
            x[0] = 0j
            x[2] = 0j          # balanced
        X = np.array(x, dtype=complex).reshape(3, 1)
        s2p = aux.sequence_to_phase(X).flatten()
        p2s = aux.phase_to_sequence(X).flatten()
        d = {"x": [[z.real, z.imag] for z in x]}
        ctx.case(d, nontrivial=True, sample={"input": d, "sequence_to_phase": [[z.real, z.imag] for z in s2p]} if k < 1 else None)
        jobs.append(("OL [run_s2p %s; run_p2s %s]" % (C3(x), C3(x)), ("tr", s2p, p2s), d))
        ctx.count("transform_cases")
    for k in range(ctx.n(20, 600)):
        n = rng.randint(1, 3)
        S = np.array([[rnd_c(rng, 0.1) for _ in range(n)] for _ in range(3)], dtype=complex)
        V = np.array([[rnd_c(rng, 0.2) for _ in range(n)] for _ in range(3)], dtype=complex)
        Sabc, Vabc = aux.SVabc_from_SV012(S.copy(), V.copy())
        for c in range(n):
            d = {"S012": [[z.real, z.imag] for z in S[:, c]], "V012": [[z.real, z.imag] for z in V[:, c]]}
            ctx.case(d, nontrivial=True)
            jobs.append(("run_SVabc %s %s" % (C3(S[:, c]), C3(V[:, c])), ("sv", Sabc[:, c], Vabc[:, c]), d))
            ctx.count("SVabc_cases")
    return jobs


def _cmp_transform(ctx, m, obs, d):
    ctx.corr_checked += 1
    if obs[0] == "tr":
        a, b_ = k3val(m[0]), k3val(m[1])
        if not all(cclose(x, y) for x, y in zip(a, obs[1])):
            ctx.disagreement("sequence_to_phase: model %s impl %s" % (a, list(obs[1])), d)
        if not all(cclose(x, y) for x, y in zip(b_, obs[2])):
            ctx.disagreement("phase_to_sequence: model %s impl %s" % (b_, list(obs[2])), d)
    else:
        s, v = k3val(m[0]), k3val(m[1])
        if not (all(cclose(x, y) for x, y in zip(s, obs[1])) and all(cclose(x, y) for x, y in zip(v, obs[2]))):
            ctx.disagreement("SVabc_from_SV012: model %s/%s impl %s/%s" % (s, v, list(obs[1]), list(obs[2])), d)


# ------------------------------------------------------------------ nets
def _gen_net(rng, asym):
    net = pp.create_empty_network(sn_mva=rng.choice([1.0, 1.0, 10.0]))
    feat = set()
    nb = rng.randint(3, 5)
    idx = rng.sample(range(3 * nb + 3), nb) if rng.random() < 0.4 else list(range(nb))
    buses = [pp.create_bus(net, vn_kv=20.0, index=i) for i in idx]
    edges = [(buses[rng.randrange(0, i)], buses[i]) for i in range(1, nb)]
    for _ in range(rng.randint(0, 2)):
        a, b_ = rng.sample(buses, 2)
        if (a, b_) not in edges and (b_, a) not in edges:
            edges.append((a, b_))
    for a, b_ in edges:
        r, x, c = rng.randint(8, 40) / 64, rng.randint(8, 40) / 64, rng.choice([0, 8, 160, 256])
        pp.create_line_from_parameters(net, a, b_, length_km=rng.randint(2, 24) / 8, r_ohm_per_km=r, x_ohm_per_km=x, c_nf_per_km=c,
                                       max_i_ka=rng.randint(16, 40) / 64, r0_ohm_per_km=r * rng.choice([1, 3, 4]), x0_ohm_per_km=x * rng.choice([1, 3, 4]),
                                       c0_nf_per_km=c * rng.choice([1, 0.5]), parallel=rng.choice([1, 1, 2]))
    egkw = dict(s_sc_max_mva=rng.choice([1000.0, 5000.0]), rx_max=rng.choice([0.1, 0.2]), x0x_max=rng.choice([1.0, 0.8]), r0x0_max=rng.choice([0.1, 0.2]))
    if rng.random() < 0.6:
        hv = pp.create_bus(net, vn_kv=110.0)
        pp.create_ext_grid(net, hv, vm_pu=rng.choice([1.0, 1.02, 0.98]), **egkw)
        vg, shift = rng.choice([("Dyn", 150.0), ("YNyn", 0.0), ("Yzn", 150.0), ("Dyn", 30.0)])
        vk, vkr = rng.choice([(12.0, 0.41), (12.0, 0.41), (10.0, 0.5), (6.0, 1.0)])
        vk0, vkr0 = rng.choice([(vk, vkr), (vk, vkr), (10.0, 0.5), (0.0, 0.0)])           # (0, 0): fall back to the positive-sequence values
        pfe, i0 = rng.choice([(0.0, 0.07), (14.0, 0.07), (14.0, 0.1), (30.0, 0.04), (0.0, 0.0)])    # (30, 0.04): b_mva_squared < 0 is clamped
        kw = {}
        if rng.random() < 0.3:
            kw = dict(leakage_resistance_ratio_hv=rng.choice([0.5, 0.4]), leakage_reactance_ratio_hv=rng.choice([0.5, 0.6]))
        pp.create_transformer_from_parameters(net, hv, buses[0], sn_mva=rng.choice([25.0, 40.0]), vn_hv_kv=110.0, vn_lv_kv=rng.choice([20.0, 20.0, 21.0]),
                                              vkr_percent=vkr, vk_percent=vk, pfe_kw=pfe, i0_percent=i0, shift_degree=shift,
                                              vector_group=vg, vk0_percent=vk0, vkr0_percent=vkr0, mag0_percent=rng.choice([100.0, 100.0, 50.0, 10.0]),
                                              mag0_rx=rng.choice([0.0, 0.0, 0.25]), si0_hv_partial=rng.choice([0.9, 0.9, 0.5]),
                                              tap_side=rng.choice(["hv", "hv", "lv"]), tap_neutral=0, tap_min=-9, tap_max=9, tap_step_percent=1.5, tap_pos=rng.choice([0, 2, -2]),
                                              tap_changer_type="Ratio", parallel=rng.choice([1, 1, 2]), **kw)
        feat.add("trafo_" + vg)
    else:
        pp.create_ext_grid(net, buses[0], vm_pu=rng.choice([1.0, 1.02]), **egkw)
    for b_ in buses[1:]:
        if rng.random() < 0.7:
            pp.create_load(net, b_, p_mw=rng.randint(1, 16) / 16, q_mvar=rng.randint(-2, 6) / 16, scaling=rng.choice([1.0, 1.0, 0.5]),
                           in_service=rng.random() < 0.9)
        if rng.random() < 0.3:
            pp.create_sgen(net, b_, p_mw=rng.randint(1, 8) / 16, q_mvar=rng.randint(-2, 2) / 16, scaling=rng.choice([1.0, 0.75]),
                           in_service=rng.random() < 0.9)
        if asym and rng.random() < 0.6:
            pp.create_asymmetric_load(net, b_, p_a_mw=rng.randint(0, 8) / 32, q_a_mvar=rng.randint(0, 4) / 32, p_b_mw=rng.randint(0, 8) / 32,
                                      q_b_mvar=rng.randint(0, 4) / 32, p_c_mw=rng.randint(0, 8) / 32, q_c_mvar=rng.randint(0, 4) / 32,
                                      scaling=rng.choice([1.0, 0.5]), in_service=rng.random() < 0.9, type=rng.choice(["wye", "wye", "delta"]))
            feat.add("asym_load")
        if asym and rng.random() < 0.25:
            pp.create_asymmetric_sgen(net, b_, p_a_mw=rng.randint(0, 4) / 32, q_a_mvar=0.0, p_b_mw=rng.randint(0, 4) / 32, q_b_mvar=rng.randint(0, 2) / 32,
                                      p_c_mw=rng.randint(0, 4) / 32, q_c_mvar=0.0, scaling=rng.choice([1.0, 0.5]), in_service=rng.random() < 0.9)
            feat.add("asym_sgen")
    if not asym and rng.random() < 0.4:
        # impedance element (only in symmetric nets: there is no res_impedance_3ph to take per-phase flows from);
        # with shunt part in half of the cases
        a, b_ = rng.sample(buses, 2)
        sh = rng.choice([(0.0, 0.0, 0.0, 0.0), (0.0, 0.0, 0.0, 0.0), (0.01, 0.02, 0.01, 0.02), (0.0, -0.05, 0.0, 0.0), (0.005, 0.01, 0.0, 0.03)])
        rft, xft = rng.choice([(0.01, 0.02), (0.02, 0.04), (0.005, 0.03)])
        pp.create_impedance(net, a, b_, rft_pu=rft, xft_pu=xft, sn_mva=rng.choice([10.0, 25.0]), gf_pu=sh[0], bf_pu=sh[1], gt_pu=sh[2], bt_pu=sh[3],
                            rft0_pu=2 * rft, xft0_pu=2 * xft, gf0_pu=sh[0], bf0_pu=sh[1], gt0_pu=sh[2], bt0_pu=sh[3])
        feat.add("impedance_shunt" if any(sh) else "impedance")
    if rng.random() < 0.4:
        # two buses fused by a closed bus-bus switch, each with its own loads (they map to one ppc node)
        a = rng.choice(buses[1:])
        nb_ = pp.create_bus(net, vn_kv=20.0)
        pp.create_switch(net, a, nb_, "b", closed=True)
        pp.create_load(net, nb_, p_mw=rng.randint(2, 12) / 16, q_mvar=rng.randint(0, 4) / 16)
        if not len(net.load[net.load.bus == a]):
            pp.create_load(net, a, p_mw=rng.randint(2, 12) / 16, q_mvar=rng.randint(0, 4) / 16)
        if asym:
            pp.create_asymmetric_load(net, nb_, p_a_mw=0.125, q_a_mvar=0.03125, p_b_mw=0.0625, q_b_mvar=0.0, p_c_mw=0.03125, q_c_mvar=0.0625)
            if not len(net.asymmetric_load[net.asymmetric_load.bus == a]):
                pp.create_asymmetric_load(net, a, p_a_mw=0.0625, q_a_mvar=0.0, p_b_mw=0.125, q_b_mvar=0.03125, p_c_mw=0.0, q_c_mvar=0.03125)
        feat.add("fused_buses")
    if asym and not len(net.asymmetric_load):
        pp.create_asymmetric_load(net, buses[-1], p_a_mw=0.25, q_a_mvar=0.0625, p_b_mw=0.0625, q_b_mvar=0.0, p_c_mw=0.0, q_c_mvar=0.03125)
        feat.add("asym_load")
    return net, feat


def _imp_with_shunt(net):
    """python twin of  negb (G11_imp_noshunt i)  over the in-service impedance elements"""
    im = net.impedance
    return bool(len(im)) and bool(((im[list(IMP_SHUNT_COLS)] != 0).any(axis=1) & im.in_service.astype(bool)).any())


def _sym_oracle(ctx, net, n3, case):
    bad = _sym_compare(net, n3)
    if not bad:
        return
    if not IMPEDANCE_SHUNT_REPAIRED and _imp_with_shunt(net):
        # recorded finding: the shunt admittances of impedance elements are 9 times too large in runpp_3ph (3x instead of
        # 1/3 on the base 3*sn).  Exactly that: the three-phase result IS the symmetric power flow of the same net with
        # 9 times the shunt admittances of its impedance elements
        n9 = copy.deepcopy(net)
        for c in IMP_SHUNT_COLS:
            n9.impedance[c] = n9.impedance[c] * 9.0
        try:
            pp.runpp(n9, **PF_KW)
            if not _sym_compare(n9, n3):
                ctx.violation(KN_IMP, "symmetric net with an impedance element with shunt part: " + "; ".join(bad[:2]), case)
                return
        except Exception:
            pass
    ctx.violation("spec", "symmetric net: " + "; ".join(bad[:3]), case)


def _sym_compare(net, n3):
    bad = []
    for b_ in net.bus.index:
        v, a = net.res_bus.vm_pu.at[b_], net.res_bus.va_degree.at[b_]
        for ph, sh in (("a", 0.0), ("b", -120.0), ("c", 120.0)):
            v3, a3 = n3.res_bus_3ph["vm_%s_pu" % ph].at[b_], n3.res_bus_3ph["va_%s_degree" % ph].at[b_]
            da = abs((a + sh - a3 + 180) % 360 - 180)
            if not (abs(v - v3) <= 1e-6 and da <= 1e-4):
                bad.append("bus %d phase %s: vm %.8f vs %.8f, va %.6f vs %.6f(+%g)" % (b_, ph, v3, v, a3, a, sh))
        for ph in "abc":
            for q_, col in (("p", "p_mw"), ("q", "q_mvar")):
                x3 = n3.res_bus_3ph["%s_%s_%s" % (q_, ph, col.split("_")[1])].at[b_]
                if abs(x3 - net.res_bus[col].at[b_] / 3) > 1e-6:
                    bad.append("bus %d %s_%s: %.8f vs one third of %.8f" % (b_, q_, ph, x3, net.res_bus[col].at[b_]))
    for et, sides in (("line", ("from", "to")), ("trafo", ("hv", "lv"))):
        for e in net[et].index:
            for side in sides:
                for ph in "abc":
                    for q_, unit in (("p", "mw"), ("q", "mvar")):
                        x3 = n3["res_%s_3ph" % et]["%s_%s_%s_%s" % (q_, ph, side, unit)].at[e]
                        x1 = net["res_" + et]["%s_%s_%s" % (q_, side, unit)].at[e]
                        if abs(x3 - x1 / 3) > 1e-6 * max(1.0, abs(x1)):
                            bad.append("%s %d %s_%s_%s: %.8f vs one third of %.8f" % (et, e, q_, ph, side, x3, x1))
                for ph in "abc":
                    i3 = n3["res_%s_3ph" % et]["i_%s_%s_ka" % (ph, side)].at[e]
                    i1 = net["res_" + et]["i_%s_ka" % side].at[e]
                    if abs(i3 - i1) > 1e-7 * max(1.0, abs(i1)):
                        bad.append("%s %d i_%s_%s_ka: %.9f vs %.9f" % (et, e, ph, side, i3, i1))
    for ph in "abc":
        x3 = n3.res_ext_grid_3ph["p_%s_mw" % ph].sum()
        if abs(x3 - net.res_ext_grid.p_mw.sum() / 3) > 1e-6:
            bad.append("ext_grid p_%s: %.8f vs one third of %.8f" % (ph, x3, net.res_ext_grid.p_mw.sum()))
    return bad


def _asym_oracle(ctx, n3, case):
    bad = []
    # per-phase sums of the elements
    for et, sign in (("asymmetric_load", 1), ("asymmetric_sgen", 1)):
        for e in n3[et].index:
            r = n3[et].loc[e]
            for q_, unit in (("p", "mw"), ("q", "mvar")):
                tot = sum(float(r["%s_%s_%s" % (q_, ph, unit)]) for ph in "abc") * float(r.scaling) * (1.0 if r.in_service else 0.0)
                got = sum(float(n3["res_%s_3ph" % et]["%s_%s_%s" % (q_, ph, unit)].at[e]) for ph in "abc")
                if abs(tot - got) > 1e-9:
                    bad.append("%s %d: phase %s values sum to %.9f, total is %.9f" % (et, e, q_, got, tot))
    for et in ("line", "trafo"):
        for e in n3[et].index:
            r = n3["res_%s_3ph" % et].loc[e]
            sides = ("from", "to") if et == "line" else ("hv", "lv")
            for ph in "abc":
                pl = r["p_%s_%s_mw" % (ph, sides[0])] + r["p_%s_%s_mw" % (ph, sides[1])]
                if abs(pl - r["pl_%s_mw" % ph]) > 1e-9:
                    bad.append("%s %d: pl_%s_mw %.9f is not from+to %.9f" % (et, e, ph, r["pl_%s_mw" % ph], pl))
    # per-phase nodal balance
    eg_buses = {int(b_): e for e, b_ in zip(n3.ext_grid.index, n3.ext_grid.bus.values)}
    known = []
    lk = n3._pd2ppc_lookups["bus"]
    groups = {}
    for b_ in n3.bus.index:
        groups.setdefault(int(lk[b_]), []).append(int(b_))     # buses fused by closed bus-bus switches form one node
    imp_buses = set(n3.impedance.from_bus.values) | set(n3.impedance.to_bus.values) if len(n3.impedance) else set()
    for node, members in groups.items():
        b_ = members[0]
        if imp_buses & set(members):
            ctx.count("impedance_bus_no_3ph_flow_table")      # runpp_3ph writes no res_impedance_3ph: no per-phase flows to balance
            continue
        dS, Vk = [], []
        for ph in "abc":
            p = sum(n3.res_bus_3ph["p_%s_mw" % ph].at[m_] for m_ in members)
            q = sum(n3.res_bus_3ph["q_%s_mvar" % ph].at[m_] for m_ in members)
            for l in n3.line.index:
                for side in ("from", "to"):
                    if n3.line[side + "_bus"].at[l] in members:
                        p += n3.res_line_3ph["p_%s_%s_mw" % (ph, side)].at[l]
                        q += n3.res_line_3ph["q_%s_%s_mvar" % (ph, side)].at[l]
            for t in n3.trafo.index:
                for side in ("hv", "lv"):
                    if n3.trafo[side + "_bus"].at[t] in members:
                        p += n3.res_trafo_3ph["p_%s_%s_mw" % (ph, side)].at[t]
                        q += n3.res_trafo_3ph["q_%s_%s_mvar" % (ph, side)].at[t]
            dS.append(complex(p, q))
            Vk.append(n3.res_bus_3ph["vm_%s_pu" % ph].at[b_] * np.exp(1j * np.deg2rad(n3.res_bus_3ph["va_%s_degree" % ph].at[b_])))
        if all(abs(d.real) <= 2e-6 and abs(d.imag) <= 2e-6 for d in dS):
            continue
        al = n3.asymmetric_load
        if len(al) and (al.bus.isin(members) & (al.type == "delta") & al.in_service).any():
            # a delta-connected load has no per-phase (phase-to-neutral) power: its p_a/p_b/p_c are the powers of the legs
            # ab/bc/ca, so only the three-phase sum is a nodal balance statement at this bus
            ctx.count("delta_load_bus_sum_only")
            tot = sum(dS)
            if abs(tot.real) <= 5e-6 and abs(tot.imag) <= 5e-6:
                continue
        msg = "bus %d: per-phase nodal balance violated by %s MW/Mvar" % (b_, ["%.3g%+.3gj" % (d.real, d.imag) for d in dS])
        if any(m_ in eg_buses for m_ in members):
            b_ = [m_ for m_ in members if m_ in eg_buses][0]
            # recorded finding: exactly a zero-sequence current error of the ext_grid (same current in all three phases),
            # on an ext_grid whose zero-sequence admittance differs from the negative-sequence one (python twin of G11_eg)
            r = n3.ext_grid.loc[eg_buses[int(b_)]]
            guard_fails = not (float(r.x0x_max) == 1.0 and float(r.r0x0_max) == float(r.rx_max))
            dI = [np.conj(d / v) for d, v in zip(dS, Vk)]
            m = sum(dI) / 3
            same = all(abs(x - m) <= 2e-3 * abs(m) + 1e-9 for x in dI)
            if guard_fails and same:
                known.append(msg)
                continue
        bad.append(msg)
    if known:
        ctx.violation(KN_EG, "asymmetric net: " + "; ".join(known[:2]), case)
    if bad:
        ctx.violation("spec", "asymmetric net: " + "; ".join(bad[:3]), case)


def _eg_ratio_job(n3):
    """zero-sequence current reported for the ext_grid / zero-sequence current leaving its bus into the branches,
    against Model.run_eg_ratio (= y2/y0)"""
    from pandapower.results_branch import _get_branch_flows_3ph
    from pandapower.pypower.idx_gen import PG, QG, GEN_BUS
    from pandapower.pypower.idx_bus import GS, BS, VM, VA, BASE_KV
    ppc0, ppc1, ppc2 = n3._ppc0, n3._ppc1, n3._ppc2
    if len(n3.ext_grid) != 1:
        return None
    i = int(n3._pd2ppc_lookups["bus"][n3.ext_grid.bus.values[0]])
    I012_f, S012_f, V012_f, I012_t, S012_t, V012_t = _get_branch_flows_3ph(ppc0, ppc1, ppc2)
    fb = ppc1["branch"][:, 0].real.astype(int)
    tb = ppc1["branch"][:, 1].real.astype(int)
    i0_lines = I012_f[0, fb == i].sum() + I012_t[0, tb == i].sum()
    if abs(i0_lines) < 1e-7:
        return None
    gi = int(n3._pd2ppc_lookups["ext_grid"][n3.ext_grid.index[0]])
    s0 = ppc0["gen"][gi, PG] + 1j * ppc0["gen"][gi, QG]
    v0 = ppc0["bus"][i, VM] * ppc0["bus"][i, BASE_KV] * np.exp(1j * np.deg2rad(ppc0["bus"][i, VA])) / S3
    if abs(v0) < 1e-9:
        return None
    i0_eg = np.conj(s0 / v0)
    y0 = complex(ppc0["bus"][i, GS], ppc0["bus"][i, BS])
    y2 = complex(ppc2["bus"][i, GS], ppc2["bus"][i, BS])
    return ("run_eg_ratio %s %s" % (Cq(y0), Cq(y2)), ("eg", i0_eg / i0_lines), {"y0": [y0.real, y0.imag], "y2": [y2.real, y2.imag]})


def _elem_terms(n3):
    """per-bus element lists for Model.bus_pq_3ph + observed res_bus_3ph"""
    jobs = []
    eg_buses = set(n3.ext_grid.bus.values)
    for b_ in n3.bus.index:
        if b_ in eg_buses:
            continue
        for q_, unit in (("p", "mw"), ("q", "mvar")):
            els, obs_el = [], []
            col = "%s_%s" % (q_, unit)
            for et, sg in (("load", False), ("sgen", True)):
                for e in n3[et].index[n3[et].bus == b_]:
                    r = n3[et].loc[e]
                    els.append("Sym %s %s %s %s" % (cq.b(sg), Q(r[col]), Q(r.scaling), cq.b(bool(r.in_service))))
                    obs_el.append(None)
            for et, sg in (("asymmetric_load", False), ("asymmetric_sgen", True)):
                for e in n3[et].index[n3[et].bus == b_]:
                    r = n3[et].loc[e]
                    els.append("Asym %s %s %s %s %s %s" % (cq.b(sg), Q(r["%s_a_%s" % (q_, unit)]), Q(r["%s_b_%s" % (q_, unit)]), Q(r["%s_c_%s" % (q_, unit)]),
                                                      Q(r.scaling), cq.b(bool(r.in_service))))
                    rr = n3["res_%s_3ph" % et].loc[e]
                    obs_el.append([float(rr["%s_%s_%s" % (q_, ph, unit)]) for ph in "abc"])
            if not els:
                continue
            obs_bus = [float(n3.res_bus_3ph["%s_%s_%s" % (q_, ph, unit)].at[b_]) for ph in "abc"]
            jobs.append(("run_bus_pq %s" % cq.lst(["(%s)" % e for e in els]), ("bus", obs_bus, obs_el), {"bus": int(b_), "quantity": q_}))
    return jobs


def _cmp_elem(ctx, m, obs, d, case):
    ctx.corr_checked += 1
    _, obs_bus, obs_el = obs
    got = [float(x) for x in m[:3]]
    if not all(abs(a - b_) <= 1e-9 for a, b_ in zip(got, obs_bus)):
        ctx.disagreement("res_bus_3ph %s at bus %d: model %s impl %s" % (d["quantity"], d["bus"], got, obs_bus), case)
    for me, oe in zip(m[3], obs_el):
        if oe is not None and not all(abs(float(a) - b_) <= 1e-9 for a, b_ in zip(me[:3], oe)):
            ctx.disagreement("element phase values: model %s impl %s" % ([float(x) for x in me[:3]], oe), case)



# ------------------------------------------------------------------ (d) per-unit bases of the branch rows: pf_3ph vs pf
def Qe(x):
    """exact rational of a float (grid values: short)"""
    return cq.q(float(x), bits=40)


def _line_in(net, ppc, l):
    r = net.line.loc[l]
    bkv = float(ppc["bus"][int(net._pd2ppc_lookups["bus"][int(r.from_bus)]), IBUS.BASE_KV].real)
    g = float(r.g_us_per_km) if "g_us_per_km" in net.line else 0.0
    return "(Build_line_in %s %s %s %s %s %s %s)" % (Qe(r.r_ohm_per_km), Qe(r.x_ohm_per_km), Qe(r.c_nf_per_km), Qe(g), Qe(r.length_km),
                                                      Qe(r.parallel), Qe(bkv))


def _trafo_vals(net, ppc, t):
    r = net.trafo.loc[t]
    lk = net._pd2ppc_lookups["bus"]
    d = dict(vn_hv=float(r.vn_hv_kv), vn_lv=float(r.vn_lv_kv), sn_t=float(r.sn_mva), vk=float(r.vk_percent), vkr=float(r.vkr_percent),
             pfe=float(r.pfe_kw), i0=float(r.i0_percent), par=float(r.parallel), shift=float(r.shift_degree), lv=(r.tap_side == "lv"),
             pos=float(r.tap_pos), neu=float(r.tap_neutral), step=float(r.tap_step_percent),
             bkv_hv=float(ppc["bus"][int(lk[int(r.hv_bus)]), IBUS.BASE_KV].real), bkv_lv=float(ppc["bus"][int(lk[int(r.lv_bus)]), IBUS.BASE_KV].real),
             rr=float(r.leakage_resistance_ratio_hv) if "leakage_resistance_ratio_hv" in net.trafo else 0.5,
             xr=float(r.leakage_reactance_ratio_hv) if "leakage_reactance_ratio_hv" in net.trafo else 0.5)
    return d


def _trafo_in(d):
    return "(Build_trafo_in %s %s %s %s %s %s %s %s %s %s %s %s %s %s %s %s %s)" % (
        Qe(d["vn_hv"]), Qe(d["vn_lv"]), Qe(d["sn_t"]), Qe(d["vk"]), Qe(d["vkr"]), Qe(d["pfe"]), Qe(d["i0"]), Qe(d["par"]), Qe(d["shift"]),
        cq.b(bool(d["lv"])), Qe(d["pos"]), Qe(d["neu"]), Qe(d["step"]), Qe(d["bkv_hv"]), Qe(d["bkv_lv"]), Qe(d["rr"]), Qe(d["xr"]))


def _trafo_oracles(pf3ph, sn, d, zero=False):
    """float sqrt values the implementation computes (the model takes them as oracle inputs): tap, x_sc, b_mva"""
    u1 = d["vn_lv"] if d["lv"] else d["vn_hv"]
    du = u1 * (d["step"] * (d["pos"] - d["neu"]) / 100)
    sq_tap = math.sqrt((u1 + du * 1.0) ** 2 + (du * 0.0) ** 2)
    vtl = sq_tap if d["lv"] else d["vn_lv"]
    tap_lv = (vtl / d["bkv_lv"]) ** 2 * (3 * sn if pf3ph else sn)
    vk, vkr = (d["vk0"], d["vkr0"]) if zero else (d["vk"], d["vkr"])
    z, r = vk / 100. / d["sn_t"] * tap_lv, vkr / 100. / d["sn_t"] * tap_lv
    sq_x = math.sqrt(max(z * z - r * r, 0.0))
    pfe = d["pfe"] * 1e-3 / (3 if pf3ph else 1)
    ym = d["i0"] / (3 if pf3ph else 1) / 100 * d["sn_t"]
    sq_b = math.sqrt(max(ym * ym - pfe * pfe, 0.0))
    return sq_tap, sq_x, sq_b


def _imp_in(net, i):
    r = net.impedance.loc[i]
    return "(Build_imp_in %s %s %s %s %s %s %s %s %s)" % tuple(Qe(r[c]) for c in ("rft_pu", "xft_pu", "rtf_pu", "xtf_pu", "gf_pu", "bf_pu", "gt_pu", "bt_pu", "sn_mva"))


LINE_COLS = (IB.BR_R, IB.BR_X, IB.BR_B, IB.BR_G)
TRAFO_COLS = (IB.BR_R, IB.BR_X, IB.BR_G, IB.BR_B, IB.BR_G_ASYM, IB.BR_B_ASYM, IB.TAP, IB.SHIFT)
IMP_COLS = (IB.BR_R, IB.BR_X, IB.BR_R_ASYM, IB.BR_X_ASYM, IB.BR_G, IB.BR_B, IB.BR_G_ASYM, IB.BR_B_ASYM)


def _row_jobs(ctx, net, ppc, pf3ph, tag, pi=False):
    """one job per line / trafo / impedance row of the ppc `ppc` built from `net` in mode pf_3ph (pf3ph) or pf"""
    jobs = []
    lk = net._pd2ppc_lookups["branch"]
    sn, fl = float(net.sn_mva), cq.b(bool(pf3ph))
    if ppc["baseMVA"] != sn:
        ctx.disagreement("baseMVA of the %s ppc is %r, net.sn_mva is %r" % (tag, ppc["baseMVA"], sn), {"tag": tag})
    if "line" in lk and not pi:
        f, _ = lk["line"]
        for j, l in enumerate(net.line.index):
            obs = [float(ppc["branch"][f + j, c].real) for c in LINE_COLS]
            jobs.append(("run_line_row %s %s %s %s %s" % (fl, Qe(sn), Qe(net.f_hz), cq.q(math.pi), _line_in(net, ppc, l)), ("row", tag + ":line", obs, None),
                         {"element": "line", "index": int(l), "mode": tag}))
            ctx.count("row_line_" + tag)
    if "trafo" in lk:
        f, _ = lk["trafo"]
        for j, t in enumerate(net.trafo.index):
            d = _trafo_vals(net, ppc, t)
            o = _trafo_oracles(pf3ph, sn, d)
            cols = TRAFO_COLS[:4] if pi else TRAFO_COLS
            obs = [float(ppc["branch"][f + j, c].real) for c in cols]
            jobs.append(("%s %s %s %s %s %s %s" % ("run_trafo_row_pi" if pi else "run_trafo_row", fl, Qe(sn), _trafo_in(d), Qe(o[0]), Qe(o[1]), Qe(o[2])),
                         ("row", tag + ":trafo", obs, None if pi else o), {"element": "trafo", "index": int(t), "mode": tag, "values": {k: (float(v) if not isinstance(v, bool) else v) for k, v in d.items()}}))
            ctx.count("row_trafo_" + tag)
    if "impedance" in lk and not pi:
        f, _ = lk["impedance"]
        for j, i in enumerate(net.impedance.index):
            obs = [float(ppc["branch"][f + j, c].real) for c in IMP_COLS]
            jobs.append(("run_imp_row %s %s %s %s" % (cq.b(IMPEDANCE_SHUNT_REPAIRED), fl, Qe(sn), _imp_in(net, i)), ("row", tag + ":impedance", obs, None), {"element": "impedance", "index": int(i), "mode": tag}))
            ctx.count("row_impedance_" + tag)
    return jobs


def rclose(a, b, tol=1e-9):
    return abs(a - b) <= tol * max(abs(a), abs(b)) + 1e-13


def _cmp_row(ctx, m, obs, d, case):
    ctx.corr_checked += 1
    _, what, row, orc = obs
    if isinstance(m, cq.Err):
        ctx.disagreement("%s row: model %r, impl %s" % (what, m, row), case or d)
        return
    got = [float(x) for x in m[:len(row)]]
    if not all(rclose(a, b_) for a, b_ in zip(got, row)):
        ctx.disagreement("%s row %s: model %s impl %s" % (what, d, got, row), case or d)
    if orc is not None:
        # the oracle values handed to the model meet the contract s*s = argument (argument computed by the model)
        for s_, a in zip(orc, m[len(row):]):
            if abs(s_ * s_ - float(a)) > 1e-9 * max(abs(float(a)), 1e-30) + 1e-18:
                ctx.disagreement("%s: sqrt oracle %r does not meet its contract for the model argument %r" % (what, s_, float(a)), case or d)



# ------------------------------------------------------------------ (e) zero-sequence transformer rows (pd2ppc_zero.py)
ZERO_COLS = (IB.BR_R, IB.BR_X, IB.BR_G, IB.BR_B, IB.BR_G_ASYM, IB.BR_B_ASYM, IB.TAP, IB.SHIFT, IB.BR_STATUS)
VG = {"dyn": "Dyn", "ynyn": "YNyn", "yzn": "Yzn"}


def _zero_jobs(ctx, n3):
    """zero-sequence ppc row of every transformer after runpp_3ph + the two-port makeYbus.branch_vectors makes of it"""
    from pandapower.pypower.makeYbus import branch_vectors
    jobs = []
    lk = n3._pd2ppc_lookups["branch"]
    if "trafo" not in lk:
        return jobs
    ppc0 = n3._ppc0
    sn = float(n3.sn_mva)
    f, _ = lk["trafo"]
    for j, t in enumerate(n3.trafo.index):
        r = n3.trafo.loc[t]
        vg = VG.get(str(r.vector_group).lower())
        if vg is None:
            continue
        d = _trafo_vals(n3, ppc0, t)
        vk0 = float(r.vk0_percent) if abs(float(r.vk0_percent)) > 1e-8 else float(r.vk_percent)
        vkr0 = float(r.vkr0_percent) if abs(float(r.vkr0_percent)) > 1e-8 else float(r.vkr_percent)
        d.update(vk0=vk0, vkr0=vkr0)
        sq_tap, sq_x0, _ = _trafo_oracles(True, sn, d, zero=True)
        sq_m = math.sqrt(float(r.mag0_rx) ** 2 + 1)
        e = np.exp(1j * math.pi / 180 * float(r.shift_degree))
        row = ppc0["branch"][f + j, :]
        obs = [float(row[c].real) for c in ZERO_COLS]
        Ytt, Yff, Yft, Ytf = branch_vectors(ppc0["branch"][f + j:f + j + 1, :], 1)
        term = "run_zero_row %s %s (Build_zero_in %s %s %s %s %s %s %s %s) %s %s %s %s" % (
            Qe(sn), Qe(ppc0["baseMVA"]), _trafo_in(d), Qe(r.vk0_percent), Qe(r.vkr0_percent), Qe(r.mag0_percent), Qe(r.mag0_rx), Qe(r.si0_hv_partial),
            cq.b(bool(r.in_service)), vg, Qe(sq_tap), Qe(sq_x0), Qe(sq_m), Cq(e))
        jobs.append((term, ("zero", vg, obs, (sq_x0, sq_m), [complex(Yff[0]), complex(Yft[0]), complex(Ytf[0]), complex(Ytt[0])]),
                     {"element": "trafo", "index": int(t), "vector_group": vg, "sequence": 0}))
        ctx.count("zero_row_" + vg)
    return jobs


def _cmp_zero(ctx, m, obs, d, case):
    ctx.corr_checked += 1
    _, vg, row, orc, stamps = obs
    if isinstance(m, cq.Err):
        ctx.disagreement("zero-sequence %s row: model %r, impl %s" % (vg, m, row), case)
        return
    got = [float(x) for x in m[:9]]
    if not all(rclose(a, b_) for a, b_ in zip(got, row)):
        ctx.disagreement("zero-sequence %s row [R X G B G_ASYM B_ASYM TAP SHIFT STATUS]: model %s impl %s" % (vg, got, row), case)
    for s_, a in zip(orc, m[9:11]):
        if abs(s_ * s_ - float(a)) > 1e-9 * max(abs(float(a)), 1e-30) + 1e-18:
            ctx.disagreement("zero-sequence %s: sqrt oracle %r does not meet its contract for the model argument %r" % (vg, s_, float(a)), case)
    ms = [complex(float(x[0]), float(x[1])) for x in m[11:15]]
    if not all(abs(a - b_) <= 1e-9 * max(abs(a), abs(b_)) + 1e-13 for a, b_ in zip(ms, stamps)):
        ctx.disagreement("zero-sequence %s two-port [Yff Yft Ytf Ytt]: model %s impl %s" % (vg, ms, stamps), case)


# ------------------------------------------------------------------ (b) white-box line writer
def _line_writer_jobs(ctx, rng, n3, count):
    jobs = []
    if "line" not in n3._pd2ppc_lookups["branch"]:
        return jobs
    f, t = n3._pd2ppc_lookups["branch"]["line"]
    nbr = n3._ppc1["branch"].shape[0]
    for k in range(count):
        arrs = []
        bal = rng.random() < 0.3
        for _ in range(4):
            A = np.zeros((3, nbr), dtype=complex)
            for c in range(f, t):
                col = [rnd_c(rng, 0.1) for _ in range(3)]
                if bal:
                    col[0] = 0j
                    col[2] = 0j
                A[:, c] = col
            arrs.append(A)
        Vf, If, Vt, It = arrs
        n3.res_line_3ph = n3.res_line_3ph.iloc[0:0]
        from pandapower.results import init_results
        _get_line_results_3ph(n3, n3._ppc0, n3._ppc1, n3._ppc2, If, Vf, It, Vt)
        res = n3.res_line_3ph.copy()
        for j, l in enumerate(n3.line.index):
            c = f + j
            d = {"V012_f": [[z.real, z.imag] for z in Vf[:, c]], "I012_f": [[z.real, z.imag] for z in If[:, c]],
                 "V012_t": [[z.real, z.imag] for z in Vt[:, c]], "I012_t": [[z.real, z.imag] for z in It[:, c]]}
            r = res.loc[l]
            obs = {"sf": [complex(r["p_%s_from_mw" % ph], r["q_%s_from_mvar" % ph]) for ph in "abc"],
                   "st": [complex(r["p_%s_to_mw" % ph], r["q_%s_to_mvar" % ph]) for ph in "abc"],
                   "sl": [complex(r["pl_%s_mw" % ph], r["ql_%s_mvar" % ph]) for ph in "abc"],
                   "if": [r["i_%s_from_ka" % ph] for ph in "abc"], "it": [r["i_%s_to_ka" % ph] for ph in "abc"],
                   "inf": r["i_n_from_ka"], "int": r["i_n_to_ka"]}
            jobs.append(("run_line3 %s %s %s %s" % (C3(Vf[:, c]), C3(If[:, c]), C3(Vt[:, c]), C3(It[:, c])), ("line", obs), d))
            ctx.case(d, nontrivial=True)
            ctx.count("line_writer_rows")
    return jobs


def _cmp_line(ctx, m, obs, d):
    ctx.corr_checked += 1
    o = obs[1]
    ok = all(cclose(a, b_) for a, b_ in zip(k3val(m[0]), o["sf"])) and all(cclose(a, b_) for a, b_ in zip(k3val(m[1]), o["st"])) \
        and all(cclose(a, b_) for a, b_ in zip(k3val(m[2]), o["sl"]))
    ok = ok and all(cclose(kval(a).real, b_ ** 2) for a, b_ in zip(m[3], o["if"])) and all(cclose(kval(a).real, b_ ** 2) for a, b_ in zip(m[4], o["it"]))
    ok = ok and cclose(kval(m[5]).real, o["inf"] ** 2) and cclose(kval(m[6]).real, o["int"] ** 2)
    if not ok:
        ctx.disagreement("_get_line_results_3ph: model %s impl %s" % ([k3val(m[0]), k3val(m[1])], o), d)


def run(ctx):
    rng = ctx.rng
    jobs = _transform_cases(ctx, rng)
    kinds = ["t"] * len(jobs)
    cases = [None] * len(jobs)
    writer_done = 0
    rjobs, rcases, pi_done = [], [], 0
    zjobs, zcases = [], []
    corpus = [json.load(open(f))["case"] for f in sorted(glob.glob(os.path.join(cq.VERIF, "corpus", "C11", "*.json")))]
    ngen = ctx.n(22, 400)
    for k in range(-len(corpus), ngen):
        if k < 0:
            cc = corpus[k]
            net, feat, asym = pp.from_json_string(cc["net"]), {"corpus"}, bool(cc.get("asymmetric"))
            ctx.count("corpus")
        else:
            asym = k % 2 == 1
            net, feat = _gen_net(rng, asym)
        js = pp.to_json(net)
        case = {"net": js, "asymmetric": asym}
        n3 = pp.from_json_string(js)
        try:
            runpp_3ph(n3, tolerance_mva=1e-9, max_iteration=60, numba=False)
        except Exception as e:
            ctx.count("runpp_3ph_failed_%s" % type(e).__name__)
            ctx.case(case, nontrivial=False)
            continue
        for f_ in sorted(feat):
            ctx.count("feature_" + f_)
        ctx.count("asymmetric_nets" if asym else "symmetric_nets")
        ctx.case(case, nontrivial=len(net.bus) >= 3, sample={"features": sorted(feat), "buses": len(net.bus), "asymmetric": asym} if 0 <= k < 2 else None)
        # (d) branch rows of the positive-sequence ppc of runpp_3ph (mode pf_3ph) and of the ppc of runpp (mode pf)
        for j in _row_jobs(ctx, n3, n3._ppc1, True, "pf_3ph"):
            rjobs.append(j)
            rcases.append(case)
        for j in _zero_jobs(ctx, n3):
            zjobs.append(j)
            zcases.append(case)
        try:
            pp.runpp(net, **PF_KW)
        except Exception as e:
            ctx.count("runpp_failed")
            continue
        for j in _row_jobs(ctx, net, net._ppc, False, "pf"):
            rjobs.append(j)
            rcases.append(case)
        if len(net.trafo) and pi_done < ctx.n(6, 100):
            npi = pp.from_json_string(js)
            pp.runpp(npi, trafo_model="pi", **PF_KW)
            pi_done += 1
            for j in _row_jobs(ctx, npi, npi._ppc, False, "pf_pi", pi=True):
                rjobs.append(j)
                rcases.append(case)
        if not asym:
            _sym_oracle(ctx, net, n3, case)
        _asym_oracle(ctx, n3, case)
        if asym:
            gj = _eg_ratio_job(n3)
            if gj:
                jobs.append(gj)
                kinds.append("g")
                cases.append(case)
                ctx.count("eg_ratio_jobs")
        ej = _elem_terms(n3)
        for j in ej[:6]:
            jobs.append(j)
            kinds.append("e")
            cases.append(case)
        if writer_done < ctx.n(4, 100):
            lj = _line_writer_jobs(ctx, rng, n3, 1)
            writer_done += 1
            for j in lj:
                jobs.append(j)
                kinds.append("l")
                cases.append(None)
    rmodel = ctx.coq_eval("c11b", "Base.QN Base.QC C11.Base3", [j[0] for j in rjobs], shard=40, timeout=900)
    for (term, obs, d), m, case in zip(rjobs, rmodel, rcases):
        _cmp_row(ctx, m, obs, d, case)
    zmodel = ctx.coq_eval("c11z", "Base.QN Base.QC C11.Base3 C11.Zero", [j[0] for j in zjobs], shard=12, timeout=900)
    for (term, obs, d), m, case in zip(zjobs, zmodel, zcases):
        _cmp_zero(ctx, m, obs, d, case)
    model = ctx.coq_eval("c11", "Base.QN Base.QC Base.C11K C11.Model", [j[0] for j in jobs], shard=45, timeout=900)
    for (term, obs, d), kd, m, case in zip(jobs, kinds, model, cases):
        if kd == "t":
            _cmp_transform(ctx, m, obs, d)
        elif kd == "e":
            _cmp_elem(ctx, m, obs, d, case)
        elif kd == "g":
            ctx.corr_checked += 1
            mv = complex(float(m[0]), float(m[1]))
            if abs(mv - obs[1]) > 1e-4 * max(1.0, abs(mv)):
                ctx.disagreement("ext_grid zero-sequence current ratio: model y2/y0 = %s, impl %s" % (mv, obs[1]), case)
        else:
            _cmp_line(ctx, m, obs, d)


def replay(ctx, rec):
    case = rec.get("case", {})
    if "net" in case:
        net = pp.from_json_string(case["net"])
        n3 = pp.from_json_string(case["net"])
        runpp_3ph(n3, tolerance_mva=1e-9, max_iteration=60, numba=False)
        ctx.case(case, nontrivial=True)
        if not case.get("asymmetric"):
            pp.runpp(net, **PF_KW)
            _sym_oracle(ctx, net, n3, case)
        _asym_oracle(ctx, n3, case)
    else:
        run(ctx)
