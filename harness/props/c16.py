"""C16 — OPF results are feasible operating points.

Correspondence: the constraint columns of the ppci handed to pypower's opf() (gen rows PMIN/PMAX/QMIN/QMAX/PG/QG of
every element kind, bus VMIN/VMAX, line RATE_A, the generator pairs and constraint rows of dclines) against
C16.Model; captured white-box, no solver.
Oracle: on every converged real runopp/rundcopp: declared constraints on the result tables within the OPF tolerance,
fixed setpoints of non-controllable elements, and a power flow with the OPF dispatch as setpoints reproduces the
results."""
import copy, json, math, os
from fractions import Fraction as F
import numpy as np
import pandapower as pp
from vf import coqrun as cq
from vf import c17_opf as G

RULE = ("AC OPF (init flat / pf / results) and DC OPF problems on 2-5 bus meshed 20 kV nets with tight voltage bands and line ratings, in 55 % a 20/10 kV "
        "transformer (shift 0/30/150/330 deg, tap, rating 1-2 MVA, limit 50-100 %) whose loading limit binds for export and/or import, "
        "dcline setpoints p_mw > 0, < 0 and = 0, controllable gens with own vm_pu setpoints and narrow q limits, 0-2 gens with a controllable "
        "column (30 % fixed) and scaling in {1, 0.5}, controllable/fixed sgens, loads, storages, 0-2 dclines with loss_percent "
        "in {0,2,5} and loss_mw in {0,1/16}, 15 % of the elements out of service, missing limit columns (NaN) on ext_grids, gen.min_vm_pu / max_vm_pu columns (40 %), "
        "ext_grid.controllable True / False (30 %, a fifth of them with an index label that is not the position); "
        "non-trivial = at least two OPF variables besides the ext_grid or a dcline or a fixed generator")
ASSUMPTIONS = ["PIPS is an oracle: only runs reporting success are judged.  'Within the OPF tolerance' is taken from PIPS' own stopping rule: "
               "max(|g|, h) / (1 + max(|x|, |z|)) < OPF_VIOLATION = 5e-6 with z the slacks of all inequality constraints (variable bounds in p.u., "
               "squared current ratings in p.u.^2 for the AC OPF); opf_tol() bounds the allowed absolute violation by 1.25 * 5e-6 * (1 + S) from the "
               "declared data and every oracle tolerance is derived from it (loading excess equivalent to that violation + 0.05 %, boxes max(1e-4 MW, tol), "
               "voltages max(1e-5, tol), reproduction flows max(3e-3 MW, 4 tol), voltages max(1e-4, 0.2 tol), dcline law max(3e-4 MW, tol))",
               "power flow (runpp / rundcpp) convergence is an oracle for the reproduction run",
               "sqrt(3) enters the line rating as a positive number s3 (cancels in the theorem); the harness passes numpy's value"]
TRUSTED = ["white-box capture by swapping the module attribute pandapower.optimal_powerflow.opf in the harness process",
           "pypower makeYbus / makeSbus / newtonpf._evaluate_Fx called on the captured result ppci for the bus-balance observation"]
KINDS = ["C16-default-limits-swamp-convergence-test"]   # the two dcline / fixed-gen defects are repaired in /repo (corpus witnesses must pass)
KIND_COQ = {"gen": "KGen", "ext_grid": "KExt", "sgen": "KSgen", "load": "KLoad", "storage": "KStorage"}
TOLP, TOLV, TOLL = 1e-4, 1e-5, 5e-2


def _oq(x):
    return cq.oq(None if (x is None or (isinstance(x, float) and x != x)) else float(x))


def elem_term(row, has_ctrl, kind):
    def col(c):
        return row[c] if c in row.index else None
    ctrl = "None"
    if kind == "gen" and has_ctrl:
        v = row["controllable"]
        # numpy: values.astype(bool) — NaN is True
        ctrl = "(Some %s)" % cq.b(bool(np.array([v]).astype(bool)[0]))
    sc = row["scaling"] if "scaling" in row.index else 1.0
    return ("{| e_p := %s; e_q := %s; e_scaling := %s; e_min_p := %s; e_max_p := %s; e_min_q := %s; e_max_q := %s; e_ctrl := %s |}" % (
        cq.q(float(row["p_mw"]) if "p_mw" in row.index else 0.0), cq.q(float(row["q_mvar"]) if "q_mvar" in row.index else 0.0),
        cq.q(float(sc)), _oq(col("min_p_mw")), _oq(col("max_p_mw")), _oq(col("min_q_mvar")), _oq(col("max_q_mvar")), ctrl))


def fr(x):
    return F(float(x))


def close(a, b, tol=1e-9):
    a, b = float(a), float(b)
    return abs(a - b) <= tol * max(1.0, abs(a), abs(b))


def correspondence(ctx, net, ac, desc, terms, pend):
    from pandapower.pypower.idx_gen import PMIN, PMAX, QMIN, QMAX, PG, QG
    from pandapower.pypower.idx_bus import VMIN, VMAX
    from pandapower.pypower.idx_brch import RATE_A
    cap = G.capture(net, ac=ac)
    if "gen" not in cap:
        ctx.count("build_raises:" + type(cap.get("error")).__name__)
        if "controllable" in net.ext_grid.columns and len(net.ext_grid):
            # _build_pp_ext_grid reads vm_pu.values[index label]: the model must raise for the same inputs
            egs = ["{| x_label := %s; x_bus := 0; x_vm := %s; x_on := %s; x_ctrl := (Some %s) |}" % (
                cq.z(int(idx)), cq.q(float(row["vm_pu"])), cq.b(bool(row["in_service"])), cq.b(bool(row["controllable"])))
                for idx, row in net.ext_grid.iterrows()]
            terms.append("match eg_writes %s with Some _ => Base.Out.OS \"ok\" | None => Base.Out.OErr \"IndexError\" end" % cq.lst(egs))
            pend.append(("ext_grid voltage writes of a build that raised %s" % type(cap.get("error")).__name__,
                         cq.Err("IndexError") if isinstance(cap.get("error"), IndexError) else "ok", desc))
        return None
    delta = cap["options"]["delta"]
    plim = cap["options"]["p_lim_default"]
    gt = cap["gen_table"]
    # ---- gen rows
    for key, (f, t) in cap["gen_order"].items():
        if key == "xward":
            continue
        tabname = key.split("_")[0] if "controllable" in key else key
        tab = gt if tabname == "gen" else net[tabname]
        mask = cap["is_elements"][key]
        rows = tab[mask]
        for pos, (idx, row) in enumerate(rows.iterrows()):
            g = cap["gen"][int(f) + pos]
            impl = [fr(g[c]) for c in (PMIN, PMAX, QMIN, QMAX, PG, QG)]
            terms.append("run_gen %s %s %s %s" % (KIND_COQ[tabname], elem_term(row, "controllable" in tab.columns, tabname),
                                                  cq.q(delta), cq.q(plim)))
            pend.append(("gen row of %s %d" % (tabname, idx), impl, desc))
            ctx.count("row_" + tabname)
    # ---- bus voltage limits
    bl = cap["lookups"]["bus"]
    nbi = len(cap["bus"])
    lims = [None] * nbi
    for b in net.bus.index:
        lims[int(bl[b])] = (float(net.bus.min_vm_pu.at[b]), float(net.bus.max_vm_pu.at[b]))
    writes = []
    eg = net.ext_grid[cap["is_elements"]["ext_grid"]]
    for idx, row in eg.iterrows():
        if "controllable" not in net.ext_grid.columns or not bool(row["controllable"]):
            writes.append((int(bl[int(row["bus"])]), float(row["vm_pu"])))
    if "controllable" in gt.columns:
        for idx, row in gt[cap["is_elements"]["gen"]].iterrows():
            if not bool(np.array([row["controllable"]]).astype(bool)[0]):
                writes.append((int(bl[int(row["bus"])]), float(row["vm_pu"])))
    if all(l is not None for l in lims) and "max_vm_pu" not in gt.columns and "min_vm_pu" not in gt.columns:
        terms.append("run_vm %s %s %s" % (cq.lst(["(%s, %s)" % (cq.q(a), cq.q(b_)) for a, b_ in lims]),
                                          cq.lst(["(%s, %s)" % (cq.nat(k), cq.q(v)) for k, v in writes]), cq.q(delta)))
        pend.append(("bus VMIN/VMAX", [[fr(r[VMIN]), fr(r[VMAX])] for r in cap["bus"]], desc))
        ctx.count("vm_writes_%d" % min(len(writes), 3))
    # ---- the complete voltage-limit chain (controllable ext_grids, gen.min/max_vm_pu, fixed gens)
    if all(l is not None for l in lims):
        def _o(x):
            return _oq(None if x != x else x)
        egs = []
        for idx, row in net.ext_grid.iterrows():
            ctrl = "None" if "controllable" not in net.ext_grid.columns else "(Some %s)" % cq.b(bool(row["controllable"]))
            egs.append("{| x_label := %s; x_bus := %s; x_vm := %s; x_on := %s; x_ctrl := %s |}" % (
                cq.z(int(idx)), cq.nat(int(bl[int(row["bus"])])), cq.q(float(row["vm_pu"])), cq.b(bool(row["in_service"])), ctrl))
        gis = gt[cap["is_elements"]["gen"]]
        hmax, hmin = "max_vm_pu" in gt.columns, "min_vm_pu" in gt.columns
        gl_ = ["(%s, %s, %s)" % (cq.nat(int(bl[int(r_["bus"])])), _o(float(r_["max_vm_pu"])) if hmax else "None",
                                  _o(float(r_["min_vm_pu"])) if hmin else "None") for _, r_ in gis.iterrows()]
        fixed = []
        if "controllable" in gt.columns:
            fixed = [(int(bl[int(r_["bus"])]), float(r_["vm_pu"])) for _, r_ in gis.iterrows()
                     if not bool(np.array([r_["controllable"]]).astype(bool)[0])]
        terms.append("run_vm_chain %s %s %s %s %s %s %s" % (
            cq.lst(["(%s, %s)" % (_o(a), _o(b_)) for a, b_ in lims]), cq.lst(egs), cq.lst(gl_), cq.b(hmax), cq.b(hmin),
            cq.lst(["(%s, %s)" % (cq.nat(k), cq.q(v)) for k, v in fixed]), cq.q(delta)))
        pend.append(("bus VMIN/VMAX through the whole chain", [[fr(r[VMIN]), fr(r[VMAX])] for r in cap["bus"]], desc))
        ctx.count("vm_chain" + ("_genlimits" if (hmax or hmin) else "") + ("_egctrl" if "controllable" in net.ext_grid.columns else ""))
    # ---- line ratings
    s3 = float(np.sqrt(3.))
    lf, lt = cap["lookups"]["branch"]["line"]
    for pos, (idx, row) in enumerate(net.line.iterrows()):
        vn = float(net.bus.vn_kv.at[row["from_bus"]])
        terms.append("run_rate %s %s %s %s %s %s" % (cq.q(float(row["max_loading_percent"])), cq.q(float(row["max_i_ka"])),
                                                     cq.q(float(row["df"])), cq.q(float(row["parallel"])), cq.q(vn), cq.q(s3)))
        pend.append(("RATE_A of line %d" % idx, fr(cap["branch"][lf + pos, RATE_A].real) if len(cap["branch"]) == len(net.line) + len(net.trafo) else None, desc))
    if len(net.trafo) and len(cap["branch"]) == len(net.line) + len(net.trafo):
        tf, tt = cap["lookups"]["branch"]["trafo"]
        for pos, (idx, row) in enumerate(net.trafo.iterrows()):
            terms.append("run_rate_trafo %s %s %s %s" % (cq.q(float(row["max_loading_percent"])), cq.q(float(row["sn_mva"])),
                                                          cq.q(float(row["df"])), cq.q(float(row["parallel"]))))
            pend.append(("RATE_A of trafo %d" % idx, fr(cap["branch"][tf + pos, RATE_A].real), desc))
            ctx.count("row_trafo")
    # ---- dclines
    if len(net.dcline):
        n = len(net.dcline)
        aux = gt.iloc[len(gt) - 2 * n:]
        impl_g = []
        for k in range(n):
            to, frm = aux.iloc[2 * k], aux.iloc[2 * k + 1]
            impl_g.append([fr(to.p_mw), fr(frm.p_mw), fr(to.min_p_mw), fr(to.max_p_mw), fr(frm.min_p_mw), fr(frm.max_p_mw)])
        if cap["dc_raise"]:
            impl_r = cq.Err("raise")
        elif cap["dc_rows"] is None:
            impl_r = []
        else:
            A, l, u = cap["dc_rows"]
            gl = cap["lookups"]["gen"]
            impl_r = []
            ins_pos = [j for j, r in enumerate(net.dcline.itertuples()) if bool(r.in_service)]
            for k in range(A.shape[0]):
                j = ins_pos[k] if k < len(ins_pos) else 0
                to_lab, fr_lab = aux.index[2 * j], aux.index[2 * j + 1]
                row = A[k]
                others = [c for c in range(len(row)) if row[c] != 0 and c not in (int(gl[to_lab]), int(gl[fr_lab]))]
                if others or l[k] != u[k] or k >= len(ins_pos):
                    impl_r.append(["unexpected", others])
                else:
                    impl_r.append([fr(row[int(gl[to_lab])]), fr(row[int(gl[fr_lab])]), fr(l[k])])
        ds = cq.lst(["{| d_p := %s; d_loss_pct := %s; d_loss_mw := %s; d_max_p := %s; d_in := %s |}" % (
            cq.q(float(r.p_mw)), cq.q(float(r.loss_percent)), cq.q(float(r.loss_mw)), cq.q(float(r.max_p_mw)), cq.b(bool(r.in_service)))
            for r in net.dcline.itertuples()])
        terms.append("run_dc %s" % ds)
        pend.append(("dcline gens/constraint rows", [impl_g, impl_r], desc))
        ctx.count("dclines_%d" % n)
        ctx.count("dcline_setup_" + ("raises" if cap["dc_raise"] else "ok"))
    return cap


def compare(ctx, pend, model):
    for (what, impl, desc), mod in zip(pend, model):
        if impl is None:
            continue
        if what == "balance":
            compare_balance(ctx, impl, mod, desc)
            continue
        ctx.corr_checked += 1
        if not _same(impl, mod):
            ctx.disagreement("%s: impl=%s model=%s" % (what, _show(impl), _show(mod)), desc)


def _same(a, b):
    if isinstance(a, list) and isinstance(b, list):
        return len(a) == len(b) and all(_same(x, y) for x, y in zip(a, b))
    if isinstance(a, F) and isinstance(b, F):
        return close(a, b)
    return a == b


def _show(x):
    if isinstance(x, list):
        return "[" + ", ".join(_show(i) for i in x) + "]"
    if isinstance(x, F):
        return repr(float(x))
    return repr(x)


# ------------------------------------------------------------------ oracle
LAST = {}


def run_opf(net, ac, init="flat"):
    import pandapower.optimal_powerflow as om
    orig = om.opf

    def wrap(ppci, ppopt):
        r = orig(ppci, ppopt)
        LAST["res"] = {k: (np.array(r[k]).copy() if k in ("bus", "gen", "branch") else r[k]) for k in ("bus", "gen", "branch", "baseMVA", "success")}
        return r

    LAST.pop("res", None)
    LAST.pop("pf_net", None)
    om.opf = wrap
    try:
        return _run_opf(net, ac, init)
    finally:
        om.opf = orig


def _run_opf(net, ac, init="flat"):
    try:
        if not ac:
            pp.rundcopp(net)
        elif init == "results":
            pp.runopp(net)                  # provides the results the second run starts from
            pp.runopp(net, init="results")
        else:
            pp.runopp(net, init=init)
        return True, None
    except Exception as e:
        return False, type(e).__name__


def guards(net):
    return []


def _variable_rows(net, t):
    """boolean mask of the rows of table t that are OPF variables (in service; controllable for sgen/load/storage)"""
    tab = net[t]
    m = tab.in_service.values.astype(bool)
    if t in ("sgen", "load", "storage"):
        m = m & (tab.controllable.values.astype(bool) if "controllable" in tab.columns else np.zeros(len(tab), dtype=bool))
    return m


LIMCOLS = ("min_p_mw", "max_p_mw", "min_q_mvar", "max_q_mvar")


def missing_limits(net):
    """guard of the recorded finding: a limit of an OPF variable is NaN / absent, so the default limit 1e9 is used"""
    for t in ("ext_grid", "gen", "sgen", "load", "storage"):
        if len(net[t]) == 0:
            continue
        m = _variable_rows(net, t)
        if not m.any():
            continue
        for c in LIMCOLS:
            if c not in net[t].columns or bool(net[t][c][m].isnull().any()):
                return True
    return False


def _largest_limit(net):
    vals = [abs(float(v)) for t in ("ext_grid", "gen", "sgen", "load", "storage") if len(net[t]) for c in LIMCOLS if c in net[t].columns
            for v in net[t][c][_variable_rows(net, t)].values if v == v]
    return max(vals + [1.0])


def with_finite_limits(net):
    """control problem: the missing limits replaced by the largest declared limit of the net (never binding in the
    generated nets, and of the size of the other slack variables)"""
    n2 = copy.deepcopy(net)
    L = _largest_limit(net)
    for t in ("ext_grid", "gen", "sgen", "load", "storage"):
        for c, v in (("min_p_mw", -L), ("max_p_mw", L), ("min_q_mvar", -L), ("max_q_mvar", L)):
            if len(n2[t]):
                if c not in n2[t].columns:
                    n2[t][c] = v
                else:
                    n2[t][c] = n2[t][c].fillna(v)
    return n2


FEASTOL = 5e-6   # ppoption OPF_VIOLATION = PDIPM_FEASTOL


def opf_tol(net, ac):
    """the OPF's own feasibility tolerance, in p.u. of a constraint function.  PIPS stops when
    max(|g|, h) / (1 + max(|x|, |z|)) < OPF_VIOLATION = 5e-6, with z the slacks of ALL inequality constraints: the variable
    bounds (p.u.) and, for the AC OPF, the squared current limits of the branches (p.u.^2).  The allowed absolute violation
    is therefore 5e-6 * (1 + S); S is bounded here from the declared data (missing limits are left out: they are the
    recorded finding).  A factor 1.25 covers the difference between the bound and the actual max(|x|, |z|)."""
    base = float(net.sn_mva)
    S = 2.0   # voltage magnitudes, angles
    for t in ("ext_grid", "gen", "sgen", "load", "storage"):
        if len(net[t]) == 0:
            continue
        m = _variable_rows(net, t)
        for lo, hi in (("min_p_mw", "max_p_mw"), ("min_q_mvar", "max_q_mvar")):
            if lo in net[t].columns and hi in net[t].columns and (ac or lo == "min_p_mw"):
                for a_, b_ in zip(net[t][lo][m].values, net[t][hi][m].values):
                    if a_ == a_ and b_ == b_:
                        S = max(S, (abs(a_) + abs(b_)) / base)
    for r in net.dcline.itertuples():
        if bool(r.in_service):
            S = max(S, 2 * abs(r.max_p_mw) / base)
    rates = [float(r.max_loading_percent) / 100 * r.max_i_ka * r.df * r.parallel * float(net.bus.vn_kv.at[r.from_bus]) * math.sqrt(3)
             for r in net.line.itertuples() if bool(r.in_service)]
    rates += [float(r.max_loading_percent) / 100 * r.sn_mva * r.df * r.parallel for r in net.trafo.itertuples() if bool(r.in_service)]
    for R in rates:
        S = max(S, (R / base) ** 2 if ac else R / base)
    return 1.25 * FEASTOL * (1.0 + S)


def loading_tol(net, ac, max_loading, rate_mva, tol_h):
    """excess of a reported loading (in %) that corresponds to the allowed violation tol_h of the branch constraint
    (AC: |I|^2 <= (RATE_A/base)^2, DC: |P| <= RATE_A/base)"""
    R = rate_mva / float(net.sn_mva)
    if R <= 0:
        return TOLL
    if ac:
        return TOLL + max_loading * (math.sqrt(1.0 + tol_h / (R * R)) - 1.0)
    return TOLL + max_loading * tol_h / R


class _Quiet:
    """collects violations of a control run without reporting them"""
    def __init__(self):
        self.v = []

    def violation(self, kind, what, case, source="oracle"):
        self.v.append((kind, what))

    def count(self, *a, **k):
        pass


def check_constraints(ctx, net, ac, desc, init="flat", control=True):
    """declared constraints on the result tables; returns [(kind, what)] (reported by the caller)"""
    bad = []
    tol_h = opf_tol(net, ac)
    TOLP_, TOLV_ = max(TOLP, tol_h * float(net.sn_mva)), max(TOLV, tol_h)
    if ac:
        for b in net.bus.index:
            v = net.res_bus.vm_pu.at[b]
            if not (net.bus.min_vm_pu.at[b] - TOLV_ <= v <= net.bus.max_vm_pu.at[b] + TOLV_):
                bad.append(("spec", "bus %d vm_pu=%.6f outside [%g, %g]" % (b, v, net.bus.min_vm_pu.at[b], net.bus.max_vm_pu.at[b])))
    for et in ("gen", "sgen", "load", "storage", "ext_grid"):
        tab, res = net[et], net["res_" + et]
        for i in tab.index:
            if not bool(tab.in_service.at[i]):
                continue
            ctrl = True
            if "controllable" in tab.columns:
                ctrl = bool(np.array([tab.controllable.at[i]]).astype(bool)[0])
            elif et in ("sgen", "load", "storage"):
                ctrl = False
            p, qv = float(res.p_mw.at[i]), float(res.q_mvar.at[i])
            if ctrl or et == "ext_grid":
                for val, lo, hi, nm in ((p, "min_p_mw", "max_p_mw", "p"), (qv, "min_q_mvar", "max_q_mvar", "q")):
                    if nm == "q" and not ac:
                        continue
                    l = tab[lo].at[i] if lo in tab.columns else float("nan")
                    h = tab[hi].at[i] if hi in tab.columns else float("nan")
                    if (l == l and val < l - TOLP_) or (h == h and val > h + TOLP_):
                        bad.append(("spec", "%s %d: %s=%.6f outside [%s, %s]" % (et, i, nm, val, l, h)))
            if not ctrl and et != "ext_grid":
                sc = float(tab.scaling.at[i]) if "scaling" in tab.columns else 1.0
                sp = float(tab.p_mw.at[i]) * sc
                if abs(p - sp) > TOLP_:
                    bad.append(("spec", "fixed %s %d: p=%.6f, setpoint p_mw*scaling=%.6f" % (et, i, p, sp)))
                if et != "gen" and ac and abs(qv - float(tab.q_mvar.at[i]) * sc) > TOLP_:
                    bad.append(("spec", "fixed %s %d: q=%.6f, setpoint %.6f" % (et, i, qv, float(tab.q_mvar.at[i]) * sc)))
                if et == "gen" and ac and abs(float(res.vm_pu.at[i]) - float(tab.vm_pu.at[i])) > TOLV_:
                    bad.append(("spec", "fixed gen %d: vm=%.6f, setpoint %.6f" % (i, float(res.vm_pu.at[i]), float(tab.vm_pu.at[i]))))
    if ac:
        # declared voltage limits of gens (gen.min_vm_pu / max_vm_pu)
        share = {}
        for i in net.gen.index:
            if bool(net.gen.in_service.at[i]):
                share[int(net.gen.bus.at[i])] = share.get(int(net.gen.bus.at[i]), 0) + 1
        for i in net.gen.index:
            if not bool(net.gen.in_service.at[i]):
                continue
            v = float(net.res_gen.vm_pu.at[i])
            lo = float(net.gen.min_vm_pu.at[i]) if "min_vm_pu" in net.gen.columns else float("nan")
            hi = float(net.gen.max_vm_pu.at[i]) if "max_vm_pu" in net.gen.columns else float("nan")
            if (lo == lo and v < lo - TOLV_) or (hi == hi and v > hi + TOLV_):
                ctx.count("gen_vm_limit_violated" + ("_shared_bus" if share.get(int(net.gen.bus.at[i]), 0) >= 2 else ""))
                bad.append(("spec", "gen %d vm_pu=%.6f outside its own limits [%s, %s]" % (i, v, lo, hi)))
    if ac:
        for i in net.ext_grid.index:
            if bool(net.ext_grid.in_service.at[i]) and ("controllable" not in net.ext_grid.columns or not bool(net.ext_grid.controllable.at[i])):
                v = float(net.res_bus.vm_pu.at[net.ext_grid.bus.at[i]])
                if abs(v - float(net.ext_grid.vm_pu.at[i])) > TOLV_:
                    bad.append(("spec", "ext_grid %d: bus vm=%.6f, setpoint %.6f" % (i, v, float(net.ext_grid.vm_pu.at[i]))))
    for i in net.line.index:
        if bool(net.line.in_service.at[i]):
            ld = float(net.res_line.loading_percent.at[i])
            r_ = net.line.loc[i]
            rate = float(r_.max_loading_percent) / 100 * r_.max_i_ka * r_.df * r_.parallel * float(net.bus.vn_kv.at[r_.from_bus]) * math.sqrt(3)
            if ld > float(r_.max_loading_percent) + loading_tol(net, ac, float(r_.max_loading_percent), rate, tol_h):
                bad.append(("spec", "line %d loading %.4f %% > %.1f %%" % (i, ld, float(net.line.max_loading_percent.at[i]))))
    for i in net.trafo.index:
        if bool(net.trafo.in_service.at[i]):
            ld = float(net.res_trafo.loading_percent.at[i])
            lim = float(net.trafo.max_loading_percent.at[i])
            ctx.count("trafo_" + ("binding" if ld > lim - 0.5 else "slack") + ("_export" if float(net.res_trafo.p_hv_mw.at[i]) < 0 else "_import"))
            r_ = net.trafo.loc[i]
            if ld > lim + loading_tol(net, ac, lim, lim / 100 * r_.sn_mva * r_.df * r_.parallel, tol_h):
                bad.append(("spec", "trafo %d loading %.4f %% > %.1f %% (p_hv=%.4f MW, shift %g deg)" % (
                    i, ld, lim, float(net.res_trafo.p_hv_mw.at[i]), float(net.trafo.shift_degree.at[i]))))
    for r in net.dcline.itertuples():
        if not bool(r.in_service):
            continue
        rd = net.res_dcline.loc[r.Index]
        pf = float(rd.p_from_mw)
        lo, hi = (0.0, r.max_p_mw) if r.p_mw > 0 else (-r.max_p_mw, 0.0)
        if not (lo - TOLP_ <= pf <= hi + TOLP_):
            bad.append(("spec", "dcline %d p_from=%.6f outside [%g, %g]" % (r.Index, pf, lo, hi)))
        if ac:
            if abs(float(rd.q_from_mvar)) > max(abs(r.min_q_from_mvar), abs(r.max_q_from_mvar)) + TOLP_ or \
               abs(float(rd.q_to_mvar)) > max(abs(r.min_q_to_mvar), abs(r.max_q_to_mvar)) + TOLP_:
                bad.append(("spec", "dcline %d reactive power outside its limits" % r.Index))
        # the dcline's transfer law, the same in the OPF constraint row and in the power-flow model (_add_dcline_gens):
        # the receiving end gets p*(1 - loss%) - loss_mw of the power p drawn at the sending end (direction = sign of p_mw)
        pt = float(rd.p_to_mw)
        k = 1 - r.loss_percent / 100
        law = (-pt) - (pf * k - r.loss_mw) if r.p_mw > 0 else (-pf) - (pt * k - r.loss_mw)
        if abs(law) > max(3e-4, tol_h * float(net.sn_mva)):
            bad.append(("spec", "dcline %d: p_from=%.6f p_to=%.6f violate the transfer law of the dcline (residual %.2e)" % (r.Index, pf, pt, law)))
    return bad


def reproduce(ctx, net, ac, desc, Fg):
    """power flow with the OPF dispatch as setpoints; returns [(kind, what)] (reported by the caller)"""
    out = []
    n2 = copy.deepcopy(net)
    for et in ("gen", "sgen", "load", "storage"):
        tab, res = n2[et], net["res_" + et]
        for i in tab.index:
            if not bool(tab.in_service.at[i]):
                continue
            sc = float(tab.scaling.at[i]) if "scaling" in tab.columns else 1.0
            if sc == 0:
                continue
            tab.at[i, "p_mw"] = float(res.p_mw.at[i]) / sc
            if et != "gen":
                tab.at[i, "q_mvar"] = (float(res.q_mvar.at[i]) if ac else float(tab.q_mvar.at[i]) * sc) / sc
            elif ac:
                tab.at[i, "vm_pu"] = float(res.vm_pu.at[i])
    if ac:
        for i in n2.ext_grid.index:
            n2.ext_grid.at[i, "vm_pu"] = float(net.res_bus.vm_pu.at[n2.ext_grid.bus.at[i]])
            n2.ext_grid.at[i, "va_degree"] = float(net.res_bus.va_degree.at[n2.ext_grid.bus.at[i]])
    for i in n2.dcline.index:
        if bool(n2.dcline.in_service.at[i]):
            # p_mw is the power at the sending end: the from bus for p_mw > 0, the to bus otherwise
            n2.dcline.at[i, "p_mw"] = float(net.res_dcline.p_from_mw.at[i]) if float(net.dcline.p_mw.at[i]) > 0 else \
                -float(net.res_dcline.p_to_mw.at[i])
            if ac:
                n2.dcline.at[i, "vm_from_pu"] = float(net.res_dcline.vm_from_pu.at[i])
                n2.dcline.at[i, "vm_to_pu"] = float(net.res_dcline.vm_to_pu.at[i])
    if not ac:
        # DC: voltage setpoints play no role; make them consistent so that the power-flow input check passes
        n2.gen["vm_pu"] = 1.0
        n2.ext_grid["vm_pu"] = 1.0
        n2.dcline["vm_from_pu"] = 1.0
        n2.dcline["vm_to_pu"] = 1.0
    try:
        if ac:
            pp.runpp(n2, calculate_voltage_angles=True, tolerance_mva=1e-9, enforce_q_lims=False)
        else:
            pp.rundcpp(n2)
    except Exception as e:
        return [("spec", "power flow with the OPF dispatch does not run: %s %s" % (type(e).__name__, str(e)[:200]))]
    LAST["pf_net"] = n2
    worst = 0.0
    what = ""
    # network state and branch flows (the split of reactive power between several voltage-controlling elements at one
    # bus is not unique, so element-level q is not compared).  PIPS' feasibility test is relative to the size of the
    # slack variables (line ratings squared), which leaves power mismatches of up to ~1e-3 MW in a converged result.
    # tolerances from the OPF's own feasibility tolerance: the power mismatch it leaves at a bus is up to tol_h p.u.; flows
    # are compared with 4x that (but at least 3e-3 MW), voltages with the mismatch times 0.2 p.u. impedance (at least 1e-4)
    tol_h = opf_tol(net, ac)
    loose = missing_limits(net)
    tp = max(3e-3, 4 * tol_h * float(net.sn_mva))
    tv = max(1e-4, 0.2 * tol_h)
    cmp_ = [("res_bus", "va_degree", 3e-3), ("res_line", "p_from_mw", tp), ("res_line", "p_to_mw", tp), ("res_ext_grid", "p_mw", tp)]
    if ac:
        cmp_ += [("res_bus", "vm_pu", tv), ("res_line", "q_from_mvar", tp)]
    if len(net.dcline):
        cmp_ += [("res_dcline", "p_to_mw", tp)]
    if len(net.trafo):
        cmp_ += [("res_trafo", "p_hv_mw", tp), ("res_trafo", "p_lv_mw", tp)] + ([("res_trafo", "q_hv_mvar", tp)] if ac else [])
    for tab, col, tol in cmp_:
        if len(net[tab]) == 0:
            continue
        a = net[tab][col].values.astype(float)
        b = n2[tab][col].values.astype(float)
        if col == "va_degree":   # angles are compared modulo 360 degrees
            b = a + ((b - a + 180.0) % 360.0 - 180.0)
        m = ~(np.isnan(a) & np.isnan(b))
        if m.any():
            d = float(np.nanmax(np.abs(a[m] - b[m]) / tol)) if not np.isnan(np.abs(a[m] - b[m])).all() else 0.0
            if np.isnan(a[m]).any() != np.isnan(b[m]).any():
                d = float("inf")
            if d > worst:
                worst, what = d, "%s.%s differs by %.3g" % (tab, col, d * tol)
    if ac:
        # reactive power fed in by the voltage-controlling elements, per bus (the split between several of them at one bus
        # is not unique, their sum is)
        def qsum(n):
            s = {}
            for t in ("gen", "ext_grid"):
                for i in n[t].index:
                    if bool(n[t].in_service.at[i]):
                        s[int(n[t].bus.at[i])] = s.get(int(n[t].bus.at[i]), 0.0) + float(n["res_" + t].q_mvar.at[i])
            for i in n.dcline.index:
                if bool(n.dcline.in_service.at[i]):
                    s[int(n.dcline.from_bus.at[i])] = s.get(int(n.dcline.from_bus.at[i]), 0.0) - float(n.res_dcline.q_from_mvar.at[i])
                    s[int(n.dcline.to_bus.at[i])] = s.get(int(n.dcline.to_bus.at[i]), 0.0) - float(n.res_dcline.q_to_mvar.at[i])
            return s
        qa, qb = qsum(net), qsum(n2)
        for b in qa:
            d = abs(qa[b] - qb.get(b, float("nan"))) / tp
            if not d <= worst:
                worst, what = d, "reactive power of the voltage-controlling elements at bus %d: OPF %.4f Mvar, power flow %.4f Mvar" % (b, qa[b], qb.get(b, float("nan")))
    if worst > 1.0:
        out.append(("spec", "power flow with the OPF dispatch as setpoints does not reproduce the OPF result: " + what))
        ctx.count("reproduction_mismatch")
    else:
        ctx.count("reproduction_ok")
    return out


def _c(z):
    return "(mkC %s %s)" % (cq.q(float(np.real(z))), cq.q(float(np.imag(z))))


def balance(ctx, net, desc, terms, pend):
    """C16_opf_point_is_pf_point on the real code: the OPF's final V put into the power flow's own equations (its Ybus,
    its Sbus built from the dispatch, its pv / pq sets) leaves no larger mismatch than the OPF's own balance constraints;
    and the model's Sbus / g / F against makeSbus, the OPF's mismatch and newtonpf._evaluate_Fx"""
    from pandapower.pypower.makeSbus import makeSbus
    from pandapower.pypower.makeYbus import makeYbus
    from pandapower.pypower.newtonpf import _evaluate_Fx
    from pandapower.pypower.idx_bus import VM, VA
    r, n2 = LAST.get("res"), LAST.get("pf_net")
    if r is None or n2 is None or not n2.get("converged", False) or "internal" not in n2._ppc or "Sbus" not in n2._ppc["internal"]:
        ctx.count("balance_skipped")
        return []
    base = float(r["baseMVA"])
    buses = [int(b) for b in net.bus.index]
    lo, lp = net._pd2ppc_lookups["bus"], n2._pd2ppc_lookups["bus"]
    nb = len(buses)
    I = n2._ppc["internal"]
    if len(r["bus"]) != nb or I["Ybus"].shape[0] != nb:
        ctx.count("balance_skipped_shape")
        return []
    Vo = r["bus"][:, VM] * np.exp(1j * np.deg2rad(r["bus"][:, VA]))
    Yo = makeYbus(base, r["bus"], r["branch"])[0]
    So = makeSbus(base, r["bus"], r["gen"])
    g = Vo * np.conj(Yo * Vo) - So
    Vp = np.zeros(nb, dtype=complex)
    for b in buses:
        Vp[int(lp[b])] = Vo[int(lo[b])]
    Yp, Sp = I["Ybus"], np.asarray(I["Sbus"])
    pv, pq, ref = np.asarray(I["pv"]).astype(int), np.asarray(I["pq"]).astype(int), np.asarray(I["ref"]).astype(int)
    F = _evaluate_Fx(Yp, Vp, Sp, ref, pv, pq)
    gmax = float(max(np.max(np.abs(g.real)), np.max(np.abs(g.imag))))
    fmax = float(np.max(np.abs(F))) if len(F) else 0.0
    out = []
    ctx.count("balance_checked")
    # the transfer law of a dcline holds within the OPF's tolerance only: its residual enters the power flow's setpoint
    slack = 1e-9 + (opf_tol(net, True) if len(net.dcline) else 0.0)
    if fmax > gmax + slack:
        out.append(("spec", "the OPF's V leaves a mismatch of %.3e p.u. in the equations of the power flow with the dispatch as setpoints, "
                            "but only %.3e p.u. in the OPF's own balance constraints" % (fmax, gmax)))
    if LAST.get("balance_terms", 0) >= 12:
        return out
    LAST["balance_terms"] = LAST.get("balance_terms", 0) + 1
    # ---- model: elements from the tables and the OPF's result tables, buses in the order of net.bus
    pos = {b: k for k, b in enumerate(buses)}
    els = []

    def el(kind, bus, on, var, p, q):
        p, q = (0.0 if p != p else p), (0.0 if q != q else q)
        els.append("{| l_kind := %s; l_bus := %s; l_on := %s; l_var := %s; l_p := %s; l_q := %s; l_xp := 0; l_xq := 0 |}" % (
            kind, cq.nat(pos[int(bus)]), cq.b(bool(on)), cq.b(bool(var)), cq.q(float(p)), cq.q(float(q))))
    for i in net.ext_grid.index:
        el("KExt", net.ext_grid.bus.at[i], net.ext_grid.in_service.at[i], False, net.res_ext_grid.p_mw.at[i], net.res_ext_grid.q_mvar.at[i])
    for i in net.gen.index:
        el("KGen", net.gen.bus.at[i], net.gen.in_service.at[i], False, net.res_gen.p_mw.at[i], net.res_gen.q_mvar.at[i])
    for t, kd in (("sgen", "KSgen"), ("load", "KLoad"), ("storage", "KStorage")):
        for i in net[t].index:
            el(kd, net[t].bus.at[i], net[t].in_service.at[i], bool(net[t].controllable.at[i]) if "controllable" in net[t].columns else False,
               net["res_" + t].p_mw.at[i], net["res_" + t].q_mvar.at[i])
    for i in net.dcline.index:
        on = bool(net.dcline.in_service.at[i])
        el("KGen", net.dcline.from_bus.at[i], on, False, -net.res_dcline.p_from_mw.at[i], -net.res_dcline.q_from_mvar.at[i])
        el("KGen", net.dcline.to_bus.at[i], on, False, -net.res_dcline.p_to_mw.at[i], -net.res_dcline.q_to_mvar.at[i])
    Yd = Yp.toarray()
    Ym = cq.lst([cq.lst([_c(Yd[int(lp[b1]), int(lp[b2])]) for b2 in buses]) for b1 in buses])
    Vm_ = cq.lst([_c(Vo[int(lo[b])]) for b in buses])
    inv = {int(lp[b]): pos[b] for b in buses}
    terms.append("run_balance %s %s %s %s %s %s %s 1" % (cq.q(base), cq.nat(nb), cq.lst(els), Ym, Vm_,
                                                       cq.lst([cq.nat(inv[int(k)]) for k in pv]), cq.lst([cq.nat(inv[int(k)]) for k in pq])))
    vc = set(int(net.ext_grid.bus.at[i]) for i in net.ext_grid.index if bool(net.ext_grid.in_service.at[i]))
    impl = {"So": [So[int(lo[b])] for b in buses], "Sp": [Sp[int(lp[b])] for b in buses],
            "g": [float(x) for x in [g[int(lo[b])].real for b in buses] + [g[int(lo[b])].imag for b in buses]],
            "F": [float(x) for x in F], "pvpq": [inv[int(k)] for k in list(pv) + list(pq)], "pq": [inv[int(k)] for k in pq],
            "tolp": 1e-9 + (opf_tol(net, True) if len(net.dcline) else 0.0)}
    pend.append(("balance", impl, desc))
    return out


def compare_balance(ctx, impl, mod, desc):
    ctx.corr_checked += 1
    if not isinstance(mod, list) or len(mod) != 5:
        ctx.disagreement("bus balance: model gives %r" % (mod,), desc)
        return
    so, sp, g, Fm, _ = mod
    nb = len(impl["So"])
    bad = []
    for k in range(nb):
        if abs(complex(float(so[k][0]), float(so[k][1])) - impl["So"][k]) > 1e-9:
            bad.append("Sbus of the OPF at bus position %d: impl %r model %r" % (k, impl["So"][k], [float(x) for x in so[k]]))
        # the power flow's Sbus: active part wherever it has an equation, reactive part at its PQ buses
        if k in impl["pvpq"] and abs(float(sp[k][0]) - impl["Sp"][k].real) > impl["tolp"]:
            bad.append("Re Sbus of the power flow at bus position %d: impl %r model %r" % (k, impl["Sp"][k].real, float(sp[k][0])))
        if k in impl["pq"] and abs(float(sp[k][1]) - impl["Sp"][k].imag) > impl["tolp"]:
            bad.append("Im Sbus of the power flow at bus position %d: impl %r model %r" % (k, impl["Sp"][k].imag, float(sp[k][1])))
    if len(g) != len(impl["g"]) or any(abs(float(a) - b_) > 1e-8 for a, b_ in zip(g, impl["g"])):
        bad.append("g of the OPF: impl %s model %s" % (impl["g"], [float(x) for x in g]))
    if len(Fm) != len(impl["F"]) or any(abs(float(a) - b_) > 1e-8 + impl["tolp"] for a, b_ in zip(Fm, impl["F"])):
        bad.append("F of the power flow: impl %s model %s" % (impl["F"], [float(x) for x in Fm]))
    if bad:
        ctx.disagreement("; ".join(bad[:3]), desc)


def one_case(ctx, net, ac, tag, terms, pend, sample=False, init="flat"):
    desc = {"net": pp.to_json(net), "ac": ac, "init": init}
    cap = correspondence(ctx, net, ac, desc, terms, pend)
    nvar = sum(int(net[t].in_service[net[t].controllable.astype(bool)].sum()) if "controllable" in net[t].columns else
               (int(net[t].in_service.sum()) if t == "gen" else 0) for t in ("gen", "sgen", "load", "storage"))
    fixed_gen = "controllable" in net.gen.columns and bool((~net.gen.controllable.astype(bool) & net.gen.in_service).any())
    nontriv = nvar >= 2 or len(net.dcline) > 0 or fixed_gen
    Fg = guards(net)
    for k in Fg:
        ctx.count("guard_fails:" + k)
    ok, exc = run_opf(net, ac, init)
    ctx.count("%s_%s" % (tag, "converged" if ok else "not_converged:" + str(exc)))
    if ac:
        ctx.count("init_" + init)
    for r in net.dcline.itertuples():
        if bool(r.in_service):
            ctx.count("dcline_p_mw_" + ("pos" if r.p_mw > 0 else "zero" if r.p_mw == 0 else "neg"))
    ctx.case(desc, nontrivial=nontriv, sample={"input": {"gen": json.loads(net.gen.to_json()), "dcline": json.loads(net.dcline.to_json())},
                                               "impl_gen_rows": cap["gen"][:, :10].tolist() if cap else None} if sample else None)
    if not ok:
        return
    bad = check_constraints(ctx, net, ac, desc, init) + reproduce(ctx, net, ac, desc, Fg)
    if ac and not missing_limits(net):
        bad += balance(ctx, net, desc, terms, pend)
    if bad and missing_limits(net):
        # recorded finding: with a missing limit the default 1e9 enters the slack variables and PIPS' relative feasibility
        # test accepts points that violate constraints / the power balance.  Classified only if the SAME problem with the
        # missing limits replaced by the largest declared limit of the net converges to a result without any violation.
        n2 = with_finite_limits(net)
        ok2, _ = run_opf(n2, ac, init)
        if ok2:
            q = _Quiet()
            if not (check_constraints(q, n2, ac, desc, init) + reproduce(q, n2, ac, desc, Fg)):
                bad = [(KINDS[0] if k == "spec" else k, w + " [a limit of an OPF variable is NaN; with the largest declared limit instead the result has no violation]")
                       for k, w in bad]
    for kind, what in bad:
        ctx.violation(kind, what, desc)


def add_trafo(net, rng):
    """a 20/10 kV transformer (phase shift, tap) with a small rating whose loading limit binds: cheap generation and/or
    a load that wants to consume behind it, so that the limit is reached in lv->hv and in hv->lv direction"""
    hv = int(rng.choice(list(net.bus.index)))
    lv = pp.create_bus(net, vn_kv=10.0, min_vm_pu=float(net.bus.min_vm_pu.iloc[0]), max_vm_pu=float(net.bus.max_vm_pu.iloc[0]))
    pp.create_transformer_from_parameters(net, hv, lv, sn_mva=rng.choice([1.0, 2.0]), vn_hv_kv=20.0, vn_lv_kv=10.0,
                                          vkr_percent=0.5, vk_percent=rng.choice([4.0, 6.0]), pfe_kw=0.0, i0_percent=0.0,
                                          shift_degree=rng.choice([0.0, 30.0, 150.0, 330.0]), tap_side=rng.choice(["hv", "lv"]),
                                          tap_neutral=0, tap_min=-2, tap_max=2, tap_step_percent=2.5,
                                          tap_pos=rng.choice([-2, 0, 0, 1]), tap_changer_type="Ratio",
                                          max_loading_percent=rng.choice([50.0, 80.0, 100.0]), parallel=rng.choice([1, 1, 2]))
    mode = rng.choice(["export", "import", "both"])
    if mode in ("export", "both"):
        s = pp.create_sgen(net, lv, p_mw=0.5, q_mvar=0.0, controllable=True, min_p_mw=0.0, max_p_mw=rng.choice([3.0, 5.0]),
                           min_q_mvar=-0.5, max_q_mvar=0.5)
        pp.create_poly_cost(net, s, "sgen", cp1_eur_per_mw=-3.0)
    if mode in ("import", "both"):
        l = pp.create_load(net, lv, p_mw=0.5, q_mvar=0.0, controllable=True, min_p_mw=0.0, max_p_mw=rng.choice([3.0, 5.0]),
                           min_q_mvar=0.0, max_q_mvar=0.25)
        pp.create_poly_cost(net, l, "load", cp1_eur_per_mw=-8.0 if mode == "import" else -1.0)
    return mode


def gen_case(rng, k):
    net = G.gen_net(rng, pwl=False, quad=(k % 2 == 0), q_cost=False, controllable_cols=True, tight=(k % 3 != 0), oos=0.12)
    vm_eg = float(net.ext_grid.vm_pu.iloc[0])
    # keep the feasible set non-empty: fixed gens sit at the ext_grid voltage; controllable gens get their own
    # setpoints (they matter for init="pf") and in half of the cases narrow reactive limits that bind there
    for i in net.gen.index:
        if not bool(net.gen.controllable.at[i]):
            net.gen.at[i, "vm_pu"] = vm_eg
        else:
            net.gen.at[i, "vm_pu"] = rng.choice([vm_eg, 0.99, 1.02, 1.03])
            if rng.random() < 0.5:
                net.gen.at[i, "min_q_mvar"], net.gen.at[i, "max_q_mvar"] = -0.125, rng.choice([0.125, 0.25])
    if rng.random() < 0.3:
        net.ext_grid["min_p_mw"] = float("nan")
        net.ext_grid["max_q_mvar"] = float("nan")
    # voltage limits of gens (gen.min_vm_pu / max_vm_pu are OPF constraints on the gen's bus)
    if len(net.gen) and rng.random() < 0.4:
        net.gen["max_vm_pu"] = [rng.choice([1.02, 1.03, 1.04, 1.1]) for _ in net.gen.index]
        net.gen["min_vm_pu"] = [rng.choice([0.9, 0.96, 0.98]) for _ in net.gen.index]
        if len(net.gen) >= 2 and rng.random() < 0.5:
            # several gens on one bus: the tightest of their limits counts
            net.gen.loc[net.gen.index[1], "bus"] = net.gen.bus.iloc[0]
    # ext_grids with a controllable column: True = the slack voltage is an OPF variable inside the bus limits
    if rng.random() < 0.3:
        net.ext_grid["controllable"] = rng.random() < 0.6
        if rng.random() < 0.2:
            # an index label that is not the position
            net.ext_grid.index = [3]
            net.poly_cost.loc[net.poly_cost.et == "ext_grid", "element"] = 3
    # dcline setpoints of all three kinds: forward (> 0), reverse (< 0) and exactly 0 (treated as reverse)
    for i in net.dcline.index:
        if rng.random() < 0.25:
            net.dcline.at[i, "p_mw"] = 0.0
    # keep the cost side convex
    for i in net.poly_cost.index:
        if net.poly_cost.at[i, "et"] in G.NEG:
            net.poly_cost.at[i, "cp2_eur_per_mw2"] = 0.0
            net.poly_cost.at[i, "cp0_eur"] = 0.0
    if rng.random() < 0.55:
        add_trafo(net, rng)
    return net


def corpus_nets():
    d = os.path.join(cq.VERIF, "corpus", "C16")
    out = []
    if os.path.isdir(d):
        for f in sorted(os.listdir(d)):
            if f.endswith(".json"):
                rec = json.load(open(os.path.join(d, f)))
                out.append((f, pp.from_json_string(rec["net"]), rec.get("ac", True), rec.get("init", "flat")))
    return out


def run(ctx):
    rng = ctx.rng
    terms, pend = [], []
    LAST["balance_terms"] = 0
    for name, net, ac, init in corpus_nets():
        one_case(ctx, net, ac, "corpus", terms, pend, init=init)
        ctx.count("corpus_cases")
    for k in range(ctx.n(70, 800)):
        net = gen_case(rng, k)
        ac = (k % 4 != 3)
        init = rng.choice(["flat", "pf", "pf", "results"]) if ac else "flat"
        one_case(ctx, net, ac, "ac" if ac else "dc", terms, pend, sample=k < 3, init=init)
    model = ctx.coq_eval("c16", "Base.QN Base.QC C16.Model", terms, shard=400)
    compare(ctx, pend, model)


def replay(ctx, rec):
    case = rec.get("case", rec)
    if "net" in case:
        terms, pend = [], []
        one_case(ctx, pp.from_json_string(case["net"]), case.get("ac", True), "replay", terms, pend, sample=True, init=case.get("init", "flat"))
        compare(ctx, pend, ctx.coq_eval("c16", "Base.QN Base.QC C16.Model", terms, shard=400))
    else:
        run(ctx)
